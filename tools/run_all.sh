#!/bin/bash
# run every registered check (quick by default) sequentially; print one line per check
cd /verif
tier=${1:-quick}
for c in $(python3 -c "import json; print(' '.join(x['property_id'] for x in json.load(open('MANIFEST.json'))['checks']))"); do
  s=$(date +%s)
  out=$(./check $c --tier $tier 2>&1 | grep -E "^(VIOLATION|HARNESS|\[$c\] tier)" | cut -c1-220)
  rc=0; echo "$out" | grep -q "^VIOLATION" && rc=1
  echo "$c rc=$rc $(( $(date +%s) - s ))s  $(echo "$out" | grep "^\[$c\] tier" | sed 's/.*cases=/cases=/')"
  echo "$out" | grep "^VIOLATION" | head -3
done
