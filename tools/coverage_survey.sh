#!/bin/bash
# usage: tools/coverage_survey.sh [tier] [checks...]   -> .cache/coverage/report.txt
# Runs the checks with line coverage of groupby_lib switched on in the workers and lists the lines no
# sub-space reaches (numba-compiled bodies are invisible to it).  Survey only.
cd /verif
tier=${1:-quick}; shift
checks=${@:-$(python3 -c "import json; print(' '.join(x['property_id'] for x in json.load(open('MANIFEST.json'))['checks']))")}
d=/verif/.cache/coverage; rm -rf $d; mkdir -p $d
export VERIF_COVERAGE=$d VERIF_EVIDENCE_DIR=/verif/.cache/evidence-tmp VERIF_NO_WARM=
for c in $checks; do ./check $c --tier $tier 2>&1 | grep -E "^\[$c\] tier|^VIOL" | cut -c1-160; done
cd $d && /venv/bin/python -m coverage combine --data-file=$d/.coverage $d/.cov.* >/dev/null 2>&1
/venv/bin/python -m coverage report --data-file=$d/.coverage -m --include="*/groupby_lib/*" > $d/report.txt 2>&1
tail -15 $d/report.txt
