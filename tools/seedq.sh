#!/bin/bash
# tiny sequential queue for seeded runs: lines "<seeded-id> <check> [<check>...]" in /tmp/seedq.txt
touch /tmp/seedq.txt /tmp/seedq.done
while true; do
  line=$(grep -vxFf /tmp/seedq.done /tmp/seedq.txt | head -1)
  if [ -z "$line" ]; then sleep 15; continue; fi
  echo "$line" >> /tmp/seedq.done
  cd /verif && tools/try_seeded.sh $line >> /tmp/seedq.log 2>&1
done
