#!/bin/bash
# run the thorough tier of the given checks sequentially (evidence into a scratch dir), niced
cd /verif
export VERIF_EVIDENCE_DIR=/verif/.cache/evidence-thorough
for c in "$@"; do
  s=$(date +%s)
  out=$(nice -n 10 ./check $c --tier thorough 2>&1 | grep -E "^(VIOLATION|HARNESS|KNOWN|\[$c\] tier)" | cut -c1-260)
  rc=0; echo "$out" | grep -q "^VIOLATION" && rc=1
  echo "$c thorough rc=$rc $(( $(date +%s) - s ))s  $(echo "$out" | grep "^\[$c\] tier" | sed 's/.*cases=/cases=/')"
  echo "$out" | grep "^VIOLATION" | head -5
  cp .cache/last-$c.txt .cache/last-thorough-$c.txt 2>/dev/null
done
