#!/bin/bash
# usage: tools/confirm_seeded.sh <seeded-id> <worktree> <demo file name in worktree>
# confirms: demo fails with the change, passes without it, baseline pass-set stays green with it
sid=$1; wt=$2; demo=$3
out=/verif/seeded/$sid/confirm.log
export NUMBA_CACHE_DIR=/tmp/mutkit/nbconfirm_$sid NUMBA_FUNCTION_CACHE_SIZE=1000000 PYTHONDONTWRITEBYTECODE=1
cd $wt || exit 2
{
echo "== demo WITH change"; /venv/bin/python $demo > /tmp/mutkit/demo_$sid.with 2>&1; echo "exit=$?"; tail -3 /tmp/mutkit/demo_$sid.with
git stash -q
echo "== demo WITHOUT change"; /venv/bin/python $demo > /tmp/mutkit/demo_$sid.without 2>&1; echo "exit=$?"; tail -2 /tmp/mutkit/demo_$sid.without
git stash pop -q
echo "== suite WITH change"; /verif/tools/suite.py $wt -n ${NPROC:-4}
echo "suite_exit=$?"
} > $out 2>&1
rm -rf $NUMBA_CACHE_DIR
