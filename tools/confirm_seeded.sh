#!/bin/bash
# usage: tools/confirm_seeded.sh <seeded-id>
# Confirms a seeded change on a private scratch worktree of /repo HEAD (never `git stash`: the stash is
# shared by all worktrees of a repository): demo fails with the change, passes without it, and the
# BASELINE pass-set stays green with it.  Writes seeded/<id>/confirm.log, removes the worktree.
sid=$1
out=/verif/seeded/$sid/confirm.log
wt=/tmp/wt_confirm_$sid
export NUMBA_CACHE_DIR=/tmp/mutkit/nbconfirm_$sid NUMBA_FUNCTION_CACHE_SIZE=1000000 PYTHONDONTWRITEBYTECODE=1
git -C /repo worktree remove --force $wt 2>/dev/null
git -C /repo worktree add -q --detach $wt HEAD || exit 2
cd $wt || exit 2
{
echo "base=$(git rev-parse --short HEAD)"
cp /verif/seeded/$sid/demo.py $wt/demo_seeded.py
# demos written by the sub-agents assert their own worktree path: neutralise that check
sed -i "s#/tmp/mut[a-z]\?_[A-Z0-9]*#$wt#g" $wt/demo_seeded.py
echo "== demo WITHOUT change"; /venv/bin/python demo_seeded.py > /tmp/mutkit/demo_$sid.without 2>&1; echo "exit=$?"; tail -2 /tmp/mutkit/demo_$sid.without
git apply /verif/seeded/$sid/patch.diff || echo "PATCH DOES NOT APPLY"
echo "== demo WITH change"; /venv/bin/python demo_seeded.py > /tmp/mutkit/demo_$sid.with 2>&1; echo "exit=$?"; tail -3 /tmp/mutkit/demo_$sid.with
echo "== suite WITH change"; /verif/tools/suite.py $wt -n ${NPROC:-4}
echo "suite_exit=$?"
} > $out 2>&1
cd /; git -C /repo worktree remove --force $wt
rm -rf $NUMBA_CACHE_DIR
