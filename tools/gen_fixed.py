#!/usr/bin/env python3
"""Refresh the `fixed` entries of known_findings.json from /repo's fix: commits (hashes change when
the history is tidied); the property / failing-input text per commit subject is in fixed_map.json."""
import json, subprocess
V = "/verif"
m = json.load(open(f"{V}/tools/fixed_map.json"))
log = subprocess.run(["git", "-C", "/repo", "log", "--reverse", "--format=%h\t%s", "be63ad5..HEAD"],
                     capture_output=True, text=True).stdout.strip().split("\n")
d = json.load(open(f"{V}/known_findings.json"))
d["findings"] = [f for f in d["findings"] if f.get("status") != "fixed"]
missing = []
for line in log:
    h, subj = line.split("\t")
    if not subj.startswith("fix:"):
        continue
    if subj not in m:
        missing.append(subj)
        continue
    prop, what = m[subj]
    d["findings"].append({"id": f"X-{h}", "property": prop, "status": "fixed", "commit": h, "subject": subj,
                          "what": what, "line": f"fixed: property={prop} {h} {what}"})
json.dump(d, open(f"{V}/known_findings.json", "w"), indent=1)
print("fixed entries:", sum(1 for f in d["findings"] if f["status"] == "fixed"), "unmapped commits:", missing)
