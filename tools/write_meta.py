#!/usr/bin/env python3
"""Write seeded/<id>/meta.json from tools/seeded_info.json + the outcomes recorded by tools/try_seeded.sh
(results file given as argv[1], default /verif/seeded/results.txt)."""
import json, os, re, sys
root = os.path.dirname(os.path.dirname(os.path.abspath(__file__)))
info = json.load(open(os.path.join(root, "tools", "seeded_info.json")))
resf = sys.argv[1] if len(sys.argv) > 1 else os.path.join(root, "seeded", "results.txt")
res = {}
for line in open(resf):
    m = re.match(r"(C\d\d-\w): (C\d\d) (DETECTS|silent)(?: \((\d+) violation lines\))?", line)
    if m:
        res.setdefault(m.group(1), {})[m.group(2)] = (m.group(3), m.group(4))   # last run wins
for sid, e in info.items():
    d = os.path.join(root, "seeded", sid)
    if not os.path.isdir(d):
        continue
    r = res.get(sid, {})
    meta = {
        "property": sid[:3],
        "breaks": e["breaks"],
        "needs": e["needs"],
        "detected_by": {c: f"quick tier: {n} VIOLATION line(s)" for c, (st, n) in sorted(r.items()) if st == "DETECTS"},
        "silent": sorted(c for c, (st, n) in r.items() if st != "DETECTS"),
        "strengthened": e.get("strengthened", ""),
        "ran": [f"tools/confirm_seeded.sh {sid} (scratch worktree of /repo HEAD + patch: demo exits 0 without / non-zero with, "
                "suite pass-set compared with /root/.vp/BASELINE.json; see confirm.log)",
                f"tools/try_seeded.sh {sid} " + " ".join(sorted(r)) + " (scratch worktree, VERIF_REPO, quick tier)"],
    }
    if not meta["strengthened"]:
        del meta["strengthened"]
    json.dump(meta, open(os.path.join(d, "meta.json"), "w"), indent=1)
    print(sid, "->", ",".join(meta["detected_by"]) or "NOT DETECTED")
