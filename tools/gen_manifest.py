#!/venv/bin/python
"""Regenerate MANIFEST.json from the property modules that exist (mc/props/cNN.py)."""
import json
import re
from pathlib import Path

V = Path(__file__).resolve().parent.parent
props = [json.loads(l) for l in (V / "properties.jsonl").read_text().splitlines() if l.strip()]
NOTES = json.loads((V / "tools" / "manifest_notes.json").read_text())
checks, na = [], []
for p in props:
    pid = p["id"]
    mod = V / "mc" / "props" / f"{pid.lower()}.py"
    note = NOTES.get(pid, {})
    if mod.exists() and not note.get("disabled"):
        import importlib, sys
        sys.path.insert(0, str(V))
        M = importlib.import_module(f"mc.props.{pid.lower()}")
        tech = getattr(M, "TECHNIQUE", "bounded exhaustive enumeration")
        note.setdefault("text", "Model checking by exhaustive enumeration on the real implementation: "
                        + getattr(M, "RULE", "") + ".  Holds for every case inside the bounds; the "
                        "thorough tier raises the bounds, never changes the oracle.")
        note.setdefault("note", "Bounds / assumptions: " + "; ".join(getattr(M, "ASSUMPTIONS", []))
                        + ".  Trusted base: the pure-Python reference model (mc/refmodel.py), "
                        "numpy/pandas for container plumbing and as stated oracles, the harness-side "
                        "seams of DESIGN.md 1.4.")
        checks.append(dict(
            property_id=pid,
            quick_cmd=f"./check {pid} --tier quick",
            thorough_cmd=f"./check {pid} --tier thorough",
            evidence_file=f"/verif/evidence/{pid}.json",
            replay_cmd_template=f"./check {pid} --replay {{path}}",
            engine="mc",
            level_claimed=dict(
                category="model_checking",
                text=note.get("text", "bounded exhaustive exploration of the real implementation "
                                      "against a reference model / differential oracle"),
                design_ref=note.get("design_ref", f"DESIGN.md section 2, {pid}"),
            ),
            level_note=note.get("note", "holds for all inputs/configurations/schedules inside the "
                                        "stated bounds (DESIGN.md); trusted base: the pure-Python "
                                        "reference model, numpy/pandas for container plumbing"),
            technique=tech,
        ))
    else:
        na.append(dict(property_id=pid, reason=note.get("na_reason", "check not built yet in this "
                       "round (model checking applies; see DESIGN.md section 2)")))
man = dict(
    version=1,
    setup_cmd="/venv/bin/python -c \"import sys; sys.path.insert(0,'/verif'); import mc.engine\"",
    hooks=dict(
        guard="GROUPBY_LIB_VERIF",
        enable="no source hooks: the harness owns module-level seams of groupby_lib from outside "
               "(DESIGN.md section 1.4); the guard variable is set by the harness and read by nothing in /repo",
        baseline_off_cmd="cd /repo && /venv/bin/python -m pytest -ra -q -p no:cacheprovider --timeout=900 "
                         "--continue-on-collection-errors",
        source_commits=[],
        add_only=True,
    ),
    engines=[dict(name="mc", path="/verif/mc", serves_properties=[c["property_id"] for c in checks],
                  kind_free_text="hand-written explicit-state / bounded-exhaustive explorer for Python: "
                                 "sharded enumeration of finite case spaces executed on the real library, "
                                 "controlled thread-pool scheduler with deviation-bounded schedule DFS, "
                                 "BFS over concrete object states; replay files re-execute single cases")],
    checks=checks,
    not_applicable=na,
    notes="see DESIGN.md; known findings in known_findings.json; seeded property-breaking changes in seeded/",
)
(V / "MANIFEST.json").write_text(json.dumps(man, indent=1))
print("checks:", [c["property_id"] for c in checks], "not claimed:", [n["property_id"] for n in na])
