#!/venv/bin/python
"""Run the repository's own test-suite on a tree and compare with the BASELINE stable pass-set.

    tools/suite.py [TREE=/repo] [-n N]

Uses a private NUMBA_CACHE_DIR (never the repo's __pycache__), re-runs 'lost' tests alone
(three timing tests flicker under xdist load).  Exit 0 iff every BASELINE-stable test passes.
"""
import json
import os
import subprocess
import sys
import tempfile
import xml.etree.ElementTree as ET
from pathlib import Path


def parse(xml):
    ok, bad = set(), set()
    for tc in ET.parse(xml).getroot().iter("testcase"):
        tid = f"{tc.get('classname')}::{tc.get('name')}"
        if any(ch.tag in ("failure", "error", "skipped") for ch in tc):
            bad.add(tid)
        else:
            ok.add(tid)
    return ok, bad


def run(tree, n, extra=(), xml=None):
    env = dict(os.environ)
    cache = Path("/verif/.cache/suite") / str(abs(hash(str(tree))) % 10**8)
    cache.mkdir(parents=True, exist_ok=True)
    env.update(NUMBA_CACHE_DIR=str(cache), NUMBA_FUNCTION_CACHE_SIZE="1000000",
               PYTHONDONTWRITEBYTECODE="1", PYTHONHASHSEED="0")
    env.pop("GROUPBY_LIB_VERIF", None)
    cmd = ["/venv/bin/python", "-m", "pytest", "-q", "-p", "no:cacheprovider", "--timeout=900",
           "--continue-on-collection-errors", f"--junitxml={xml}", "-x" if False else "-q"]
    if n > 1:
        cmd += ["-n", str(n)]
    cmd += list(extra)
    p = subprocess.run(cmd, cwd=tree, env=env, capture_output=True, text=True)
    return p


def main():
    args = sys.argv[1:]
    n = 8
    if "-n" in args:
        i = args.index("-n")
        n = int(args[i + 1])
        del args[i:i + 2]
    tree = Path(args[0] if args else "/repo").resolve()
    base = set(json.load(open("/root/.vp/BASELINE.json"))["stable_pass"])
    with tempfile.TemporaryDirectory(dir="/verif/.cache") as td:
        xml = Path(td) / "r.xml"
        p = run(tree, n, xml=xml)
        ok, bad = parse(xml)
        lost = sorted(base - ok)
        print(f"passed={len(ok)} failed/skipped={len(bad)} baseline={len(base)} lost={len(lost)}")
        if lost:
            # re-run lost tests alone, single process
            files = sorted({t.split("::")[0].replace(".", "/").rsplit("/", 0)[0] for t in lost})
            paths = set()
            for t in lost:
                mod = t.split("::")[0]
                parts = mod.split(".")
                # classname may include the class: find the longest prefix that is a file
                for k in range(len(parts), 0, -1):
                    f = tree / ("/".join(parts[:k]) + ".py")
                    if f.exists():
                        paths.add(str(f.relative_to(tree)))
                        break
            xml2 = Path(td) / "r2.xml"
            run(tree, 1, extra=sorted(paths), xml=xml2)
            ok2, _ = parse(xml2)
            still = sorted(set(lost) - ok2)
            print(f"re-run alone: still lost={len(still)}")
            for t in still[:40]:
                print("  LOST", t)
            return 1 if still else 0
    return 0


def _cleanup():
    """scratch trees get a private numba cache each (~80 MB): drop it when the run is over"""
    import shutil
    args = [a for a in sys.argv[1:] if not a.startswith("-") and not a.isdigit()]
    tree = Path(args[0] if args else "/repo").resolve()
    if str(tree) != "/repo":
        shutil.rmtree(Path("/verif/.cache/suite") / str(abs(hash(str(tree))) % 10**8), ignore_errors=True)


if __name__ == "__main__":
    rc = main()
    _cleanup()
    sys.exit(rc)
