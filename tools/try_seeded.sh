#!/bin/bash
# usage: tools/try_seeded.sh <seeded-id> <check-id>...
# applies seeded/<id>/patch.diff to a scratch worktree of /repo HEAD (outside /repo and /verif), runs the
# quick checks against it (VERIF_REPO), removes the worktree.  Evidence goes to a scratch directory.
set -u
sid=$1; shift
wt=/tmp/wt_seed_${sid}${WT_SUFFIX:-}
git -C /repo worktree remove --force $wt 2>/dev/null
git -C /repo worktree add -q --detach $wt HEAD || exit 2
trap 'git -C /repo worktree remove --force '$wt EXIT
git -C $wt apply /verif/seeded/$sid/patch.diff || { echo "$sid: patch does not apply"; exit 2; }
cd /verif
export VERIF_EVIDENCE_DIR=/verif/.cache/evidence-seeded VERIF_REPO=$wt
for c in "$@"; do
  out=$(./check $c --tier ${TIER:-quick} ${ONLY:+--only "$ONLY"} 2>/dev/null | grep -E "^(VIOLATION|KNOWN|HARNESS)" )
  if echo "$out" | grep -q "^VIOLATION"; then echo "$sid: $c DETECTS ($(echo "$out" | grep -c '^VIOLATION') violation lines)"; echo "$out" | grep VIOLATION | head -2;
  elif echo "$out" | grep -q "^HARNESS"; then echo "$sid: $c HARNESS-BROKEN"; else echo "$sid: $c silent"; fi
done
