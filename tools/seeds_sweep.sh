#!/bin/bash
# usage: tools/seeds_sweep.sh "<seeds>" [checks...]  - quick tier of every check for several VERIF_SEED values
# (evidence into a scratch directory); one summary line per (check, seed), VIOLATION lines shown
cd "$(dirname "$0")/.."
seeds=${1:-"1 2 3"}; shift
checks=${@:-$(python3 -c "import json; print(' '.join(x['property_id'] for x in json.load(open('MANIFEST.json'))['checks']))")}
export VERIF_EVIDENCE_DIR=$PWD/.cache/evidence-seeds
for sd in $seeds; do
  for c in $checks; do
    s=$(date +%s)
    out=$(VERIF_SEED=$sd ./check $c --tier quick 2>&1 | grep -E "^(VIOLATION|HARNESS|    facet|\[$c\] tier)" | cut -c1-220)
    echo "seed=$sd $c $(( $(date +%s) - s ))s $(echo "$out" | grep "^\[$c\] tier" | sed 's/.*cases=/cases=/')"
    echo "$out" | grep -E "^VIOLATION|^    facet|^HARNESS" | head -4
  done
done
