#!/bin/bash
# usage: tools/save_seeded.sh <P> <wave-letter> <checks...>   (worktree /tmp/mut<wave>_<P>, e.g. /tmp/mutc_C05)
P=$1; wv=$2; shift 2
wt=/tmp/mut${wv}_$P; sid=${P}-${wv}
mkdir -p /verif/seeded/$sid
(cd $wt && git diff > /verif/seeded/$sid/patch.diff && cp demo_$P.py /verif/seeded/$sid/demo.py) || exit 1
git -C /repo worktree remove --force $wt
echo "$sid $*" >> /tmp/seedflow3.q
echo saved $sid
