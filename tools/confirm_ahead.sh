#!/bin/bash
# runs tools/confirm_seeded.sh for queued seeded ids (reverse queue order) that have no confirm.log yet
while true; do
  sid=$(tac /tmp/seedflow.q | awk '{print $1}' | while read s; do [ -f /verif/seeded/$s/confirm.log ] || { echo $s; break; }; done)
  [ -z "$sid" ] && { sleep 30; continue; }
  NPROC=3 /verif/tools/confirm_seeded.sh $sid
done
