#!/usr/bin/env python3
"""Generate the sub-agent prompts for one wave of seeded property-breaking changes.

usage: tools/gen_prompts.py <wave-letter> [<PID> ...]   -> /tmp/mutkit/prompt<wave>_<PID>.txt
Each prompt holds ONLY the property text, the scratch worktree path and a one-line description of
what earlier waves already changed for that property (so the new change is independent of them);
nothing about the verification machinery.  Also copies tools/suite.py to /tmp/mutkit/suite.py.
"""
import json, os, shutil, sys, glob

root = os.path.dirname(os.path.dirname(os.path.abspath(__file__)))
wave = sys.argv[1]
only = sys.argv[2:]
props = {json.loads(l)["id"]: json.loads(l) for l in open(os.path.join(root, "properties.jsonl"))}
os.makedirs("/tmp/mutkit", exist_ok=True)
shutil.copy(os.path.join(root, "tools", "suite.py"), "/tmp/mutkit/suite.py")

earlier = {}
for d in sorted(glob.glob(os.path.join(root, "seeded", "C??-?"))):
    sid = os.path.basename(d)
    mf = os.path.join(d, "meta.json")
    if os.path.exists(mf):
        earlier.setdefault(sid[:3], []).append(json.load(open(mf))["breaks"])
    # a change filed under another property may be the same patch (e.g. C05-a = C01-a): fine

T = '''You are helping to evaluate a verification effort by producing ONE realistic, subtle, property-breaking change ("seeded defect") to a Python library.

The library is `groupby-lib` (a pandas groupby accelerator built on numba). You have your own scratch git worktree of it at `{wt}` (a detached checkout; work ONLY there). Python is `/venv/bin/python` (the package `groupby_lib` is importable from the worktree when you run with cwd=`{wt}` or put `{wt}` first on sys.path; check `groupby_lib.__file__` to be sure you are testing your worktree and not /repo).

STRICT RULES
- Do NOT read, list or use anything under `/verif` (it contains the verification machinery under evaluation; your change must be independent of it). Do not touch `/repo` either.
- ALWAYS run python with these environment variables so numba does not write into the source tree: `NUMBA_CACHE_DIR=/tmp/mutkit/nb{wave}_{pid} NUMBA_FUNCTION_CACHE_SIZE=1000000 PYTHONDONTWRITEBYTECODE=1`.
- Never use `git stash` (the stash is shared by all worktrees of the repository and other people are working in sibling worktrees). To test the original code, save your patch with `git -C {wt} diff > /tmp/mutkit/{pid}{wave}.patch`, revert with `git -C {wt} checkout -- groupby_lib`, and re-apply with `git -C {wt} apply /tmp/mutkit/{pid}{wave}.patch`.
- Be economical with CPU: the machine is shared. Run the full test-suite at most 2-3 times.

THE PROPERTY your change must break (this is all you are told about what is being verified):

  id: {pid}
  title: {title}
  statement: {statement}
  quantified over: {quant}

WHAT TO PRODUCE
A small change to the library source (under `{wt}/groupby_lib/`, not the tests) that
 1. still imports/compiles,
 2. keeps the repository's existing test-suite green: every test in the baseline pass-set still passes. Check with
        /tmp/mutkit/suite.py {wt} -n 3
    (it runs the suite from your worktree with a private numba cache, compares with the baseline pass-set in /root/.vp/BASELINE.json, re-runs "lost" tests alone, and prints `lost=0` / `still lost=0` when fine; it takes about 6-12 minutes). If your change loses baseline tests, make it subtler and try again. (The wall-clock tests `test_multi_key_large_data[...]` flicker under machine load; ignore those.)
 3. breaks the property above for SOME inputs, but needs something specific to manifest -- a particular interleaving / completion order of parallel tasks, a multi-step sequence of operations on one object, an unusual input shape (e.g. a group absent from one block of rows, a null in a particular position, a particular mask kind or chunk layout, a particular dtype or container), or two cooperating code sites that each look fine alone. It must NOT be something that ordinary use would expose at once (not "sum returns garbage for every input"). Prefer realistic maintainer mistakes: off-by-one in an offset/cursor, a cache not invalidated, a guard dropped in one of several similar branches, wrong variable reused, state shared that should be local, a merge that ignores a count, dtype handling in one branch only, etc.
 4. comes with a demonstration: a small stand-alone script `{wt}/demo_{pid}.py` that exits 0 on the ORIGINAL code and exits non-zero (assertion failure) WITH your change, using only the public API of the library (GroupBy, groupby_lib.groupby.numba kernels, emas, nanops, util helpers, the pandas facade -- whatever the property is about). The demo may set `groupby_lib.groupby.core.THRESHOLD_FOR_CHUNKED_FACTORIZE` to a small number to reach the chunked code paths with small inputs (the repository's own tests do the same).

{earlier}{hint}Read the relevant source first ({files}) to find a good spot. Then make the change, write the demo, verify: demo fails with the change, passes without it, suite stays green with the change.

FINAL ANSWER (your last message):
 - the output of `git -C {wt} diff` (the patch; leave the change applied and uncommitted in the worktree, demo file untracked),
 - what the change needs in order to manifest,
 - the exact commands you ran to verify (suite result line, demo with/without).
Keep it to one change. If after honest effort you cannot find a change that keeps the suite green, report the best candidate and say which tests it loses.
'''

for pid, p in props.items():
    if only and pid not in only:
        continue
    e = ""
    if earlier.get(pid):
        e = ("IMPORTANT: earlier changes for this property already did the following; pick a DIFFERENT function / "
             "mechanism (ideally in a different part of the code that the property also depends on, or a different "
             "operation / dtype / container / configuration named in the quantifier), so that the changes are independent:\n"
             + "".join(f"  - {b}\n" for b in earlier[pid]) + "\n")
    open(f"/tmp/mutkit/prompt{wave}_{pid}.txt", "w").write(T.format(
        wt=f"/tmp/mut{wave}_{pid}", wave=wave, pid=pid, title=p["title"], statement=p["statement"],
        quant=p["quantifier"]["text"], files=", ".join(p["anchors"]["files"]), earlier=e,
        hint=(os.environ["HINT"].strip() + "\n\n") if os.environ.get("HINT") else ""))
    print("wrote", f"/tmp/mutkit/prompt{wave}_{pid}.txt")
