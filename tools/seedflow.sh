#!/bin/bash
# sequential queue: lines "<seeded-id> <check> [<check>...]" in ${Q:-/tmp/seedflow.q} ; for each: confirm (demo with/without +
# suite on a scratch worktree), then run the quick checks against it; outcomes appended to seeded/results.txt
touch ${Q:-/tmp/seedflow.q} ${Q:-/tmp/seedflow.q}.done
mkdir -p /tmp/mutkit
while true; do
  line=$(grep -vxFf ${Q:-/tmp/seedflow.q}.done ${Q:-/tmp/seedflow.q} | head -1)
  if [ -z "$line" ]; then sleep 20; continue; fi
  echo "$line" >> ${Q:-/tmp/seedflow.q}.done
  set -- $line; sid=$1
  cd /verif
  if [ ! -f seeded/$sid/confirm.log ]; then NPROC=${NPROC:-4} tools/confirm_seeded.sh $sid; fi
  echo "--- $sid confirm: $(grep -E 'exit=|lost' seeded/$sid/confirm.log | tr '\n' ' ')" >> /tmp/seedflow.log
  tools/try_seeded.sh $line 2>&1 | tee -a /tmp/seedflow.log | grep -E "DETECTS|silent|HARNESS" >> seeded/results.txt
done
