import sys, os; sys.path.insert(0, os.environ.get("VERIF_REPO", "/repo"))
# throwaway: reference models for cumulative / rolling / shift / diff / EMA at kernel level
import itertools, collections, warnings, time, math, sys
import numpy as np
warnings.simplefilter("ignore")
from groupby_lib.groupby import numba as nbf
from groupby_lib.emas import ema_grouped, ema
U = [4,-1,16,2,-64,8,32]
def alphabet(G):
    A=[("N",1,1)]
    for g in range(G): A += [(g,1,0),(g,0,1),(g,1,1)]
    return A
def conc(word):
    codes = np.array([k if k!="N" else -1 for k,_,_ in word], dtype=np.int64)
    vals = np.array([float(U[i]) if x else np.nan for i,(_,x,_) in enumerate(word)])
    mask = np.array([bool(m) for _,_,m in word]); return codes, vals, mask
def N(a): return [None if (isinstance(v,float) and math.isnan(v)) else v for v in a.tolist()]
def ref_cum(word, op, skip_na):
    st={}; out=[]
    for i,(k,x,m) in enumerate(word):
        if k=="N" or not m: out.append("ANY"); continue
        v = float(U[i]) if x else None
        s = st.setdefault(k, {"acc":None,"poison":False,"n":0})
        if op=="count":
            out.append(s["n"]); s["n"]+=1; continue
        if v is None:
            if not skip_na: s["poison"]=True
        else:
            if s["acc"] is None: s["acc"]=v
            elif op=="sum": s["acc"]+=v
            elif op=="min": s["acc"]=min(s["acc"],v)
            elif op=="max": s["acc"]=max(s["acc"],v)
        if s["poison"]: out.append(None)
        elif s["acc"] is None: out.append(0.0 if op=="sum" else None)
        else: out.append(s["acc"])
    return out
def ref_roll(word, op, w, mp):
    hist={}; out=[]
    for i,(k,x,m) in enumerate(word):
        if k=="N" or not m: out.append("ANY"); continue
        v = float(U[i]) if x else None
        h = hist.setdefault(k, [])
        if op in ("shift","diff"):
            if len(h) >= w:
                p = h[-w]
                out.append(p if op=="shift" else (None if (p is None or v is None) else v-p))
            else: out.append(None)
            h.append(v); continue
        h.append(v); win=[z for z in h[-w:] if z is not None]
        if len(win) < mp or not win: out.append(None)
        elif op=="sum": out.append(sum(win))
        elif op=="mean": out.append(sum(win)/len(win))
        elif op=="min": out.append(min(win))
        elif op=="max": out.append(max(win))
    return out
def ref_ema(word, alpha):
    st={}; out=[]
    for i,(k,x,m) in enumerate(word):
        if k=="N": out.append("ANY"); continue
        s = st.setdefault(k, {"num":0.0,"den":0.0,"last":None})
        valid = bool(x) and bool(m)
        if valid:
            s["num"]+= float(U[i]); s["den"]+=1.0
            s["last"] = s["num"]/s["den"]
        out.append(s["last"] if (m or True) else "ANY")
        s["num"]*= (1-alpha); s["den"]*=(1-alpha)
    return out
def eq(a,b,tol=0):
    if len(a)!=len(b): return False
    for x,y in zip(a,b):
        if y=="ANY": continue
        if x is None or y is None:
            if x is not y: return False
        elif abs(x-y) > tol*max(1,abs(y)): return False
    return True
diffs=collections.Counter(); ex={}; n=0; t0=time.time()
L = int(sys.argv[1]) if len(sys.argv)>1 else 4
for l in range(1,L+1):
  for word in itertools.product(alphabet(2), repeat=l):
    codes, vals, mask = conc(word); m = None if mask.all() else mask
    for op in ("sum","min","max"):
        for sk in (True, False):
            n+=1; got = N(getattr(nbf,"cum"+op)(codes, vals, 2, mask=m, skip_na=sk)); exp = ref_cum(word, op, sk)
            if not eq(got,exp): key=("cum"+op,sk); diffs[key]+=1; ex.setdefault(key,(word,got,exp))
    n+=1; got = N(nbf.cumcount(codes, None, 2, mask=m)); exp=ref_cum(word,"count",True)
    if not eq(got,exp): key=("cumcount",); diffs[key]+=1; ex.setdefault(key,(word,got,exp))
    for w in (1,2,3):
        for mp in range(1,w+1):
            for op in ("sum","mean","min","max"):
                n+=1; got = N(getattr(nbf,"rolling_"+op)(codes, vals, 2, w, min_periods=mp, mask=m)); exp=ref_roll(word,op,w,mp)
                if not eq(got,exp,1e-12): key=("rolling_"+op,w,mp); diffs[key]+=1; ex.setdefault(key,(word,got,exp))
        for op in ("shift","diff"):
            n+=1; got = N(getattr(nbf,"rolling_"+op)(codes, vals, 2, w, mask=m)); exp=ref_roll(word,op,w,None)
            if not eq(got,exp): key=("rolling_"+op,w); diffs[key]+=1; ex.setdefault(key,(word,got,exp))
    if "N" not in [k for k,_,_ in word]:
        for a in (0.25,0.5,1.0):
            n+=1; got = N(ema_grouped(codes, 2, vals, alpha=a, mask=m)); exp=ref_ema(word,a)
            if not eq(got,exp,1e-12): key=("ema",a); diffs[key]+=1; ex.setdefault(key,(word,got,exp))
print("evals",n,"%.1fs"%(time.time()-t0))
for k,v in sorted(diffs.items(), key=lambda kv:-kv[1])[:30]: print(v,k,"\n     e.g.",ex[k])
