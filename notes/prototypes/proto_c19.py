# throwaway: input snapshot / aliasing prototype (C19)
import numpy as np, pandas as pd, polars as pl, pyarrow as pa, warnings, io, contextlib, hashlib
warnings.simplefilter("ignore")
from groupby_lib import GroupBy
def snap(x):
    if isinstance(x, np.ndarray): return ("nd", x.dtype.str, x.shape, x.strides, hashlib.sha1(np.ascontiguousarray(x).view(np.uint8) if x.dtype!=object else repr(x.tolist()).encode()).hexdigest())
    if isinstance(x, pd.Series): return ("ser", snap(x.index), snap_arr(x.array), x.name)
    if isinstance(x, pd.Index): return ("idx", snap_arr(x.array) if not isinstance(x, pd.RangeIndex) else repr(x), x.name)
    if isinstance(x, pd.Categorical): return ("cat", snap(np.asarray(x.codes)), snap(x.categories))
    if isinstance(x, pd.DataFrame): return ("df", tuple(snap(x[c]) for c in x.columns), tuple(x.columns))
    if isinstance(x, pl.Series): return ("pl", x.dtype.__repr__(), repr(x.to_list()))
    if isinstance(x, (pa.Array, pa.ChunkedArray)): return ("pa", str(x.type), repr(x.to_pylist()), tuple(tuple((b.address, b.size, hashlib.sha1(b.to_pybytes()).hexdigest()) if b is not None else None for b in c.buffers()) for c in (x.chunks if isinstance(x, pa.ChunkedArray) else [x])))
    if isinstance(x, (list, tuple)): return tuple(snap(i) for i in x)
    if isinstance(x, dict): return tuple((k, snap(v)) for k,v in x.items())
    return repr(x)
def snap_arr(a):
    if isinstance(a, pd.Categorical): return snap(a)
    try: return snap(a.to_numpy()) if not hasattr(a, "_ndarray") else snap(a._ndarray)
    except Exception: return repr(list(a))
def writable_handles(r):
    hs=[]
    if isinstance(r, (pd.Series, pd.DataFrame)):
        for f in (lambda: r.values, lambda: r.to_numpy(copy=False), lambda: np.asarray(r), lambda: r.array._ndarray if hasattr(r,"array") and hasattr(r.array,"_ndarray") else None,
                  lambda: r.index.values, lambda: r._mgr.blocks[0].values if hasattr(r,"_mgr") else None):
            try:
                h=f()
                if isinstance(h, np.ndarray): hs.append(h)
            except Exception: pass
    elif isinstance(r, np.ndarray): hs.append(r)
    elif isinstance(r, pl.Series):
        try: hs.append(r.to_numpy(allow_copy=False))
        except Exception: pass
    elif isinstance(r, dict):
        for v in r.values():
            if isinstance(v, np.ndarray): hs.append(v)
    return hs
def try_mutate(h):
    try:
        if h.size==0: return False
        if not h.flags.writeable:
            try: h.flags.writeable=True
            except Exception: return False
        flat = h.reshape(-1)
        if h.dtype.kind in "fiu": flat[...] = 77
        elif h.dtype.kind=="b": flat[...] = ~flat
        elif h.dtype.kind in "mM": flat.view("i8")[...] = 77
        else: return False
        return True
    except Exception as e: return False
k = np.array([3,1,3,2]); v = np.array([4.,-1.,16.,2.]); m = np.array([True,True,False,True])
dt = np.array(["2020-01-03","2020-01-01","2020-01-02","2020-01-05"], dtype="M8[ns]")
inputs = {
 "np": (k.copy(), v.copy(), m.copy()), "pd": (pd.Series(k.copy()), pd.Series(v.copy()), pd.Series(m.copy())),
 "pd_nocopy": (pd.Series(k.copy(), copy=False), pd.Series(v.copy(), copy=False), m.copy()),
 "cat": (pd.Categorical.from_codes([0,1,0,2], ["c","a","b"]), v.copy(), m.copy()),
 "bool": (np.array([True,False,True,True]), v.copy(), m.copy()),
 "pa": (pa.array(k.copy()), pa.array(v.copy()), m.copy()), "pl": (pl.Series(k.copy()), pl.Series(v.copy()), m.copy()),
 "dt": (k.copy(), dt.copy(), m.copy()), "dt_pd": (k.copy(), pd.Series(dt.copy()), m.copy()),
}
OPS = {
 "sum": lambda g,v,m: g.sum(v, mask=m), "min": lambda g,v,m: g.min(v, mask=m), "first_t": lambda g,v,m: g.first(v, transform=True), "size": lambda g,v,m: g.size(),
 "cumsum": lambda g,v,m: g.cumsum(v, mask=m) , "cummax": lambda g,v,m: g.cummax(v), "shift": lambda g,v,m: g.shift(v), "rmax": lambda g,v,m: g.rolling_max(v,2,min_periods=1),
 "head": lambda g,v,m: g.head(v, 2, keep_input_index=True), "groups": lambda g,v,m: g.groups, "key_count": lambda g,v,m: g.key_count, "ikey": lambda g,v,m: g.group_ikey,
 "result_index": lambda g,v,m: g.result_index, "median": lambda g,v,m: g.median(v), "ema": lambda g,v,m: g.ema(v, alpha=.5) ,
}
for iname,(K,V,M) in inputs.items():
    for oname, f in OPS.items():
        if iname.startswith("dt") and oname in ("sum","cumsum","median","ema"): continue
        try:
            with contextlib.redirect_stdout(io.StringIO()):
                g = GroupBy(K); before = (snap(K), snap(V), snap(M)); r1 = f(g,V,M); after = (snap(K), snap(V), snap(M))
                n1 = snap(r1)
                hs = writable_handles(r1) if not isinstance(r1, (pd.Index,)) else [r1.values]
                wrote = [try_mutate(h) for h in hs]
                after2 = (snap(K), snap(V), snap(M)); r2 = f(g,V,M); n2 = snap(r2)
        except Exception as e:
            print(iname, oname, "EXC", type(e).__name__, str(e)[:80]); continue
        flags=[]
        if before!=after: flags.append("INPUT-MUTATED-BY-OP")
        if after!=after2: flags.append("WRITE-THROUGH-TO-INPUT")
        if n1!=n2: flags.append("LATER-CALL-CHANGED")
        if flags: print(iname, oname, flags, "handles", len(hs), "written", sum(wrote))
print("done")
