import sys, os; sys.path.insert(0, os.environ.get("VERIF_REPO", "/repo"))
# throwaway: margins reference vs library (with the missing pandas helper shimmed)
import sys, types, itertools, collections, warnings, time, math, io, contextlib
import numpy as np, pandas as pd
warnings.simplefilter("ignore")
m_ = types.ModuleType("pandas.core.reshape.util")
m_.cartesian_product = lambda X: [g.ravel() for g in np.meshgrid(*X, indexing="ij")]
sys.modules["pandas.core.reshape.util"] = m_
from groupby_lib import GroupBy
U = [4,-1,16,2,-64,8,32]
L1 = ["b","a"]; L2 = [2,1]
SYM = [(a,b,x) for a in ("N",0,1) for b in ("N",0,1) for x in (0,1)]
SYM = [s for s in SYM if not (s[0]=="N" and s[1]=="N" and s[2]==0)]  # reduce a bit
def conc(word):
    k1 = np.array([L1[a] if a!="N" else None for a,_,_ in word], dtype=object)
    k2 = np.array([float(L2[b]) if b!="N" else np.nan for _,b,_ in word])
    v = np.array([float(U[i]) if x else np.nan for i,(_,_,x) in enumerate(word)])
    return k1,k2,v
def agg(vals, f):
    nn=[v for v in vals if v is not None]
    if f=="size": return len(vals)
    if f=="count": return len(nn)
    if f=="sum": return sum(nn) if True else None
    if not nn: return None
    return {"min":min(nn),"max":max(nn),"mean":sum(nn)/len(nn)}[f]
def ref(word, f, levels):
    rows=[(L1[a],float(L2[b]), (float(U[i]) if x else None)) for i,(a,b,x) in enumerate(word) if a!="N" and b!="N"]
    out={}
    combos=set((r[0],r[1]) for r in rows)
    for c in combos: out[c]=agg([r[2] for r in rows if (r[0],r[1])==c], f)
    if 0 in levels:
        for b in set(r[1] for r in rows): out[("All",b)] = agg([r[2] for r in rows if r[1]==b], f)
    if 1 in levels:
        for a in set(r[0] for r in rows): out[(a,"All")] = agg([r[2] for r in rows if r[0]==a], f)
    if 0 in levels and 1 in levels and rows: out[("All","All")] = agg([r[2] for r in rows], f)
    return out
def norm(res):
    out={}
    for l,v in zip(res.index.tolist(), res.tolist()):
        if v is None or (isinstance(v,float) and math.isnan(v)): v=None
        out[l]=v
    return out
diffs=collections.Counter(); ex={}; n=0; t0=time.time()
Lmax=int(sys.argv[1])
for l in range(1,Lmax+1):
  for word in itertools.product(SYM, repeat=l):
    k1,k2,v = conc(word)
    try:
        with contextlib.redirect_stdout(io.StringIO()): g = GroupBy([k1,k2])
    except Exception as e:
        diffs[("ctor",type(e).__name__)]+=1; ex.setdefault(("ctor",type(e).__name__),word); continue
    for f in ("sum","count","size","min","max","mean"):
        for levels, marg in (((0,1),True), ((0,),[0]), ((1,),[1])):
            n+=1
            exp = ref(word, f, levels)
            try:
                with contextlib.redirect_stdout(io.StringIO()):
                    r = g.size(margins=marg) if f=="size" else getattr(g,f)(v, margins=marg)
                got = norm(r)
            except Exception as e:
                got = ("EXC", type(e).__name__, str(e)[:50])
            if got != exp:
                if isinstance(got,tuple): key=(f,str(marg),"EXC",got[1],got[2])
                else:
                    extra = set(got)-set(exp); missing=set(exp)-set(got); vd = [k for k in set(got)&set(exp) if got[k]!=exp[k]]
                    key=(f,str(marg),"extra" if extra else "", "missing" if missing else "", "val" if vd else "")
                diffs[key]+=1; ex.setdefault(key,(word,exp,got))
print("evals",n,"%.1fs"%(time.time()-t0))
for k,v in sorted(diffs.items(), key=lambda kv:-kv[1])[:400]: print(v,k,"\n     e.g.",ex[k])
