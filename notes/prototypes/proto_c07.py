import sys, os; sys.path.insert(0, os.environ.get("VERIF_REPO", "/repo"))
# throwaway: C07 transform relation, C15 row selection, C16 var/median/apply vs reference
import itertools, collections, warnings, io, contextlib, time, math, fractions
import numpy as np, pandas as pd, polars as pl
warnings.simplefilter("ignore")
import groupby_lib.groupby.core as core
from groupby_lib import GroupBy
U = [4,-1,16,2,-64,8,32]; LAB=[3.5,1.0,2.25]
def alphabet(G):
    A=[("N",1,1)]
    for g in range(G): A += [(g,1,0),(g,0,1),(g,1,1)]
    return A
def conc(word):
    keys = np.array([LAB[k] if k!="N" else np.nan for k,_,_ in word])
    vals = np.array([float(U[i]) if x else np.nan for i,(_,x,_) in enumerate(word)])
    mask = np.array([bool(m) for _,_,m in word]); return keys, vals, mask
def isn(v): return v is None or (isinstance(v,float) and math.isnan(v)) or v is pd.NaT
def N(v): return None if isn(v) else (v.item() if hasattr(v,"item") else v)
def run(f):
    try:
        with contextlib.redirect_stdout(io.StringIO()): return f()
    except Exception as e: return ("EXC", type(e).__name__, str(e)[:60])
diffs=collections.Counter(); ex={}; n=0; t0=time.time()
def flag(key, e):
    diffs[key]+=1; ex.setdefault(key,e)
TOPS = ["sum","mean","min","max","count","first","last","var","std","median","size"]
Lmax=int(sys.argv[1])
for thr in (10**9, 1):
  core.THRESHOLD_FOR_CHUNKED_FACTORIZE = thr
  for L in range(1,Lmax+1):
    for word in itertools.product(alphabet(2), repeat=L):
        keys, vals, mask = conc(word); m = None if mask.all() else mask
        idx = [f"r{L-i}" for i in range(L)]
        for cont in ("np","pd","pl"):
            v = vals if cont=="np" else (pd.Series(vals, index=idx, name="v") if cont=="pd" else pl.Series("v", vals))
            if cont=="pd": kk = pd.Series(keys, index=idx)
            else: kk = keys
            mm = m if (m is None or cont!="pd") else pd.Series(m, index=idx)
            for op in TOPS:
                n+=1
                if op=="size":
                    T = run(lambda: GroupBy(kk).size(mask=mm, transform=True)); R = run(lambda: GroupBy(kk).size(mask=mm))
                else:
                    T = run(lambda: getattr(GroupBy(kk),op)(v, mask=mm, transform=True)); R = run(lambda: getattr(GroupBy(kk),op)(v, mask=mm))
                if isinstance(T,tuple) or isinstance(R,tuple):
                    if isinstance(T,tuple) != isinstance(R,tuple) or True: flag((thr,cont,op,"exc", str(T)[:70] if isinstance(T,tuple) else "ok", str(R)[:70] if isinstance(R,tuple) else "ok"), word)
                    continue
                # container
                want_pl = cont=="pl"
                if want_pl != isinstance(T, pl.Series): flag((thr,cont,op,"container",type(T).__name__), word)
                tv = [N(x) for x in T.to_list()]
                if len(tv)!=L: flag((thr,cont,op,"len"), word); continue
                if cont=="pd" and list(T.index)!=idx: flag((thr,cont,op,"index"), (word, list(T.index)))
                if cont=="np" and list(T.index)!=list(range(L)): flag((thr,cont,op,"index"), (word, list(T.index)))
                Rd = {k: N(x) for k,x in zip(R.index.tolist(), R.tolist())}
                neutral = 0 if op in ("sum","count","size") else None
                exp = [ (Rd.get(LAB[k], neutral) if k!="N" else neutral) for k,_,_ in word]
                if tv != exp: flag((thr,cont,op,"values"), (word, tv, exp))
print("evals",n,"%.1fs"%(time.time()-t0))
for k,v in sorted(diffs.items(), key=lambda kv:-kv[1])[:50]: print(v,k,"\n     e.g.",ex[k])
