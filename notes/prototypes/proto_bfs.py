import sys, os; sys.path.insert(0, os.environ.get("VERIF_REPO", "/repo"))
# throwaway feasibility prototype for C13: BFS over concrete object states until fixpoint
import os
os.environ.setdefault("NUMBA_NUM_THREADS","2")
import hashlib, io, contextlib, warnings, time, collections
import numpy as np, pandas as pd, pyarrow as pa
warnings.simplefilter("ignore")
import groupby_lib.groupby.core as core
from groupby_lib import GroupBy
core.THRESHOLD_FOR_CHUNKED_FACTORIZE = 1

def dig(x):
    if isinstance(x, np.ndarray): return ("nd", str(x.dtype), x.shape, x.tobytes())
    if isinstance(x, pa.ChunkedArray): return ("pac", tuple(tuple(c.to_pylist()) for c in x.chunks))
    if isinstance(x, pd.MultiIndex): return ("mi", tuple(x.tolist()), tuple(x.names))
    if isinstance(x, pd.Index): return ("idx", str(x.dtype), tuple(map(repr,x.tolist())), x.name)
    if isinstance(x, pd.Series): return ("ser", dig(x.index), dig(x.values))
    if isinstance(x, dict): return ("dict", tuple((repr(k), dig(v)) for k,v in x.items()))
    if isinstance(x, (list,tuple)): return ("seq", tuple(dig(i) for i in x))
    if isinstance(x, slice): return ("slice", x.start, x.stop, x.step)
    return ("py", repr(x))
def state(g): return hashlib.sha1(repr(sorted((k, dig(v)) for k,v in g.__dict__.items())).encode()).hexdigest()
def norm(r):
    if isinstance(r, Exception): return ("EXC", type(r).__name__)
    if isinstance(r, pd.Series): return ("S", tuple(map(repr, r.index.tolist())), tuple(map(repr, r.tolist())), str(r.dtype))
    if isinstance(r, pd.DataFrame): return ("DF", tuple(map(repr, r.index.tolist())), tuple(r.columns), tuple(map(repr, r.values.ravel().tolist())))
    return dig(r)

K = np.array([3.,1.,np.nan,2.,1.,3.,2.,2.])
V = np.array([4.,-1.,16.,2.,-64.,8.,32.,1.]); M = np.array([1,0,1,1,1,0,1,1],dtype=bool)
OPS = {
 "sum": lambda g: g.sum(V), "sum_m": lambda g: g.sum(V, mask=M), "sum_t": lambda g: g.sum(V, transform=True),
 "min_tm": lambda g: g.min(V, mask=M, transform=True), "mean": lambda g: g.mean(V), "first": lambda g: g.first(V), "last_m": lambda g: g.last(V, mask=M),
 "size": lambda g: g.size(), "size_m": lambda g: g.size(mask=M), "count": lambda g: g.count(V), "var": lambda g: g.var(V), "median": lambda g: g.median(V),
 "groups": lambda g: g.groups, "key_count": lambda g: g.key_count, "has_null": lambda g: g.has_null_keys,
 "head": lambda g: g.head(V, 1, keep_input_index=True), "tail": lambda g: g.tail(V, 2, keep_input_index=True), "nth": lambda g: g.nth(V, -1, keep_input_index=True),
 "cumsum": lambda g: g.cumsum(V), "cumsum_m": lambda g: g.cumsum(V, mask=M), "cumcount": lambda g: g.cumcount(),
 "rsum": lambda g: g.rolling_sum(V, 2, min_periods=1), "rsum_g": lambda g: g.rolling_sum(V, 2, min_periods=1, index_by_groups=True), "shift": lambda g: g.shift(V),
 "ema": lambda g: g.ema(V, alpha=0.5), "ema_g": lambda g: g.ema(V, alpha=0.5, index_by_groups=True),
 "slice_m": lambda g: g.sum(V, mask=slice(2,7)), "count_ikey_m": lambda g: g.count_ikey(mask=M),
 "copy_sum": lambda g: GroupBy(g).sum(V),
}
def apply(g, op):
    try:
        with contextlib.redirect_stdout(io.StringIO()): return OPS[op](g)
    except Exception as e: return e
def build(hist, **kw):
    g = GroupBy(K, **kw)
    for op in hist: apply(g, op)
    return g
for kw in ({}, {"sort": False}):
    fresh = {op: norm(apply(GroupBy(K, **kw), op)) for op in OPS}
    seen = {state(build([], **kw)): []}; frontier = collections.deque([[]]); trans=0; diffs=collections.Counter(); t=time.time()
    while frontier:
        hist = frontier.popleft()
        for op in OPS:
            g = build(hist, **kw); r = norm(apply(g, op)); trans+=1
            if r != fresh[op]: diffs[(op, r[0] if r[0]=="EXC" else "diff", r[1] if r[0]=="EXC" else "")]+=1
            s = state(g)
            if s not in seen: seen[s]=hist+[op]; frontier.append(hist+[op])
    print(kw, "states", len(seen), "transitions", trans, "maxdepth", max(map(len, seen.values())), "%.1fs"%(time.time()-t))
    for k,v in diffs.most_common(12): print("   ", k, v)
    print("   fresh exceptions:", [op for op,r in fresh.items() if r[0]=="EXC"])
