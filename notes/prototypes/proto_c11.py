import sys, os; sys.path.insert(0, os.environ.get("VERIF_REPO", "/repo"))
# throwaway: C11 labelling / order / shape
import itertools, collections, warnings, io, contextlib, time, math
import numpy as np, pandas as pd, polars as pl
warnings.simplefilter("ignore")
from groupby_lib import GroupBy
U = [4,-1,16,2,-64,8,32]
def run(f):
    try:
        with contextlib.redirect_stdout(io.StringIO()): return f()
    except Exception as e: return ("EXC", type(e).__name__, str(e)[:70])
def isn(v): return v is None or v is pd.NaT or (isinstance(v,float) and math.isnan(v))
diffs=collections.Counter(); ex={}; n=0; t0=time.time()
def flag(key, e): diffs[key]+=1; ex.setdefault(key,e)
KD = {
 "int": ([3,1,2], lambda a: np.array(a)), "float": ([3.5,1.0,2.25], lambda a: np.array([np.nan if x is None else x for x in a])),
 "str": (["c","a","b"], lambda a: np.array(a, dtype=object)), "cat": (["c","a","b"], lambda a: pd.Categorical(a, categories=["z","c","a","b"])),
 "bool": ([True, False], lambda a: np.array(a)),
}
CATORDER = ["z","c","a","b"]
def expected_labels(word, kd, sort, observed_only):
    labs = KD[kd][0]
    present = []
    for k in word:
        if k!="N" and labs[k] not in present: present.append(labs[k])
    if kd=="cat":
        return [c for c in CATORDER if (c in present or not observed_only)]
    if kd=="bool":
        allv=[False,True]
        if sort: return [v for v in allv if v in present or not observed_only]
        return present if observed_only else present + [v for v in allv if v not in present]
    return sorted(present) if sort else present
Lmax=int(sys.argv[1])
for kd in KD:
  G = 2 if kd=="bool" else 3
  for sort in (True, False):
    for obs in (True, False):
      for L in range(1,Lmax+1):
        for word in itertools.product((["N"] if kd not in ("int","bool") else [])+list(range(G)), repeat=L):
            keys = KD[kd][1]([KD[kd][0][k] if k!="N" else None for k in word])
            vals = np.array([float(U[i]) for i in range(L)])
            exp = expected_labels(word, kd, sort, obs)
            for vname, mkv, want in (("arr", lambda: vals, ("S", None)), ("named_series", lambda: pd.Series(vals, name="v"), ("S","v")), ("list2", lambda: [vals, vals*2], ("DF",["_arr_0","_arr_1"])),
                                     ("dict", lambda: {"p": vals, "q": vals*2}, ("DF",["p","q"])), ("df", lambda: pd.DataFrame({"p": vals, "q": vals*2}), ("DF",["p","q"])), ("2d", lambda: np.c_[vals, vals*2], ("DF",["_arr_0","_arr_1"])), ("list1", lambda: [vals], ("DF",["_arr_0"]))):
                for op in ("sum","min","count","size"):
                    if op=="size" and vname!="arr": continue
                    n+=1
                    kser = pd.Series(keys, name="kk") if kd!="cat" else pd.Series(keys, name="kk")
                    r = run(lambda: (GroupBy(kser, sort=sort).size(observed_only=obs) if op=="size" else getattr(GroupBy(kser, sort=sort), op)(mkv(), observed_only=obs)))
                    if isinstance(r, tuple): flag((kd,sort,obs,vname,op,"exc",r[1],r[2][:50]), word); continue
                    got = r.index.tolist()
                    if got != exp: flag((kd,sort,obs,vname,op,"labels"), (word, got, exp))
                    if r.index.names != ["kk"] and list(r.index.names)!=["kk"]: flag((kd,sort,obs,vname,op,"index-name", tuple(r.index.names)), word)
                    if op!="size":
                        if want[0]=="S":
                            if not isinstance(r, pd.Series): flag((kd,vname,op,"shape", type(r).__name__), word)
                            elif r.name != want[1]: flag((kd,vname,op,"name", r.name), word)
                        else:
                            if not isinstance(r, pd.DataFrame): flag((kd,vname,op,"shape", type(r).__name__), word)
                            elif list(r.columns)!=want[1]: flag((kd,vname,op,"columns", tuple(r.columns)), word)
                            else:
                                single = run(lambda: getattr(GroupBy(kser, sort=sort), op)(vals*2, observed_only=obs))
                                c2 = r[want[1][-1]] if len(want[1])>1 else None
                                if c2 is not None and not isinstance(single,tuple) and [None if isn(x) else x for x in c2.tolist()] != [None if isn(x) else x for x in single.tolist()]: flag((kd,sort,obs,vname,op,"column-independence"), (word, c2.tolist(), single.tolist()))
print("evals",n,"%.1fs"%(time.time()-t0))
for k,v in sorted(diffs.items(), key=lambda kv:-kv[1])[:40]: print(v,k,"\n     e.g.",ex[k])
