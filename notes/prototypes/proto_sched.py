# throwaway feasibility prototype: controlled executor through the util.concurrent seam
import os
os.environ.setdefault("NUMBA_NUM_THREADS","2")
import types, itertools, time, io, contextlib, warnings
import numpy as np
warnings.simplefilter("ignore")
import groupby_lib.util as util
import groupby_lib.groupby.core as core
from groupby_lib import GroupBy
import concurrent.futures as real

class Sched:
    def __init__(self, choices): self.choices=list(choices); self.pos=0; self.points=[]
    def pick(self, n):
        c = self.choices[self.pos] if self.pos < len(self.choices) else 0
        assert c < n, "replay divergence"
        self.pos+=1; self.points.append(n); 
        if self.pos > len(self.choices): self.choices.append(c)
        return c
CUR = None
class Fut(real.Future): pass
class Exec:
    def __init__(self, max_workers=None, **kw): self.pending=[]
    def __enter__(self): return self
    def __exit__(self,*a): self.shutdown(); return False
    def submit(self, fn, *args, **kw):
        f = Fut(); f._task=(fn,args,kw); f._ex=self; self.pending.append(f); return f
    def run_one(self, f):
        fn,args,kw = f._task; self.pending.remove(f)
        try: f.set_result(fn(*args,**kw))
        except BaseException as e: f.set_exception(e)
    def shutdown(self, wait=True, **kw):
        while self.pending:
            i = CUR.pick(len(self.pending)) if len(self.pending)>1 else 0
            self.run_one(self.pending[i])
def as_completed(fs, timeout=None):
    fs = list(fs)
    done = [f for f in fs if f.done()]
    for f in done: yield f
    pend = [f for f in fs if not f.done()]
    while pend:
        i = CUR.pick(len(pend)) if len(pend)>1 else 0
        f = pend.pop(i); f._ex.run_one(f); yield f
ns = types.SimpleNamespace(futures=types.SimpleNamespace(ThreadPoolExecutor=Exec, ProcessPoolExecutor=Exec, as_completed=as_completed, Future=Fut))
util.concurrent = ns
core.THRESHOLD_FOR_CHUNKED_FACTORIZE = 1
GroupBy._max_threads_for_numba = property(lambda self: 3)

def run(choices, k, v, op):
    global CUR
    CUR = Sched(choices)
    with contextlib.redirect_stdout(io.StringIO()):
        g = GroupBy(k); r = getattr(g, op)(v)
    return CUR, r

def explore(k, v, op, bound):
    outcomes = {}; n=0
    stack=[[]]
    while stack:
        prefix = stack.pop()
        s, r = run(prefix, k, v, op); n+=1
        outcomes.setdefault(repr(r.to_dict()), []).append(list(s.choices))
        for i in range(len(prefix), len(s.points)):
            devs = sum(1 for c in s.choices[:i] if c)
            if devs+1 > bound: continue
            for alt in range(1, s.points[i]):
                stack.append(s.choices[:i]+[alt])
    return n, outcomes
k = np.array([3,1,2,2,1,3,1]); v = np.array([4.,-1.,16.,2.,-64.,8.,32.])
for op in ("sum","min","first"):
    for b in (0,1,2):
        t=time.time(); n,o = explore(k,v,op,b); print(op,"bound",b,"schedules",n,"outcomes",len(o), "%.2fs"%(time.time()-t))
s,_ = run([],k,v,"sum"); print("choice points (pending sizes):", s.points)
# unchunked, threads path
core.THRESHOLD_FOR_CHUNKED_FACTORIZE = 10**9
for op in ("sum","min","first"):
    n,o = explore(k,v,op,2); print("unchunked T=3", op, n, len(o), list(o)[:2])
# a broken parallel_map (completion-order append) must be caught
def bad_parallel_map(func, arg_list, max_workers=None, use_threads=True):
    arg_list=list(arg_list)
    if len(arg_list)==1: return [func(*arg_list[0])]
    with Exec() as ex:
        fs={ex.submit(func,*a):i for i,a in enumerate(arg_list)}
        return [f.result() for f in as_completed(fs)]
import groupby_lib.groupby.numba as nbm
nbm.parallel_map = bad_parallel_map
n,o = explore(k,v,"sum",1); print("mutant: schedules",n,"outcomes",len(o))
