import sys, os; sys.path.insert(0, os.environ.get("VERIF_REPO", "/repo"))
# throwaway: factorization partition relation across routes (C02)
import itertools, collections, warnings, time, math, sys, io, contextlib
import numpy as np, pandas as pd, pyarrow as pa, polars as pl
warnings.simplefilter("ignore")
import groupby_lib.groupby.core as core
from groupby_lib import GroupBy
LAB = {"float":[3.5,1.0,2.25], "int":[3,1,2], "str":["c","a","b"], "dt":[np.datetime64("2020-01-03","ns"),np.datetime64("2020-01-01","ns"),np.datetime64("2020-01-02","ns")]}
def keys_for(word, kd, cont):
    if kd=="float": a = np.array([LAB[kd][k] if k!="N" else np.nan for k in word])
    elif kd=="int":
        if "N" in word: return None
        a = np.array([LAB[kd][k] for k in word])
    elif kd=="str": a = np.array([LAB[kd][k] if k!="N" else None for k in word], dtype=object)
    elif kd=="dt": a = np.array([LAB[kd][k] if k!="N" else np.datetime64("NaT") for k in word], dtype="M8[ns]")
    elif kd=="cat":
        return pd.Categorical.from_codes([k if k!="N" else -1 for k in word], categories=["z","c","a","b"][1:] + ["z"]) if cont=="np" else None
    elif kd=="bool":
        if "N" in word or 2 in word: return None
        a = np.array([bool(k) for k in word])
    if cont=="np": return a
    if cont=="pd": return pd.Series(a, name="k")
    if cont=="pa_chunk2":
        if kd in ("str",) : a = a.tolist()
        try: return pa.chunked_array([pa.array(a[:len(a)//2]), pa.array(a[len(a)//2:])]) if len(a)>=2 else None
        except Exception: return None
    if cont=="pl":
        try: return pl.Series(a.tolist() if kd=="str" else a)
        except Exception: return None
def isnull(x): 
    return x is None or x is pd.NaT or (isinstance(x,float) and math.isnan(x)) or (isinstance(x,np.datetime64) and np.isnat(x))
def check(word, keys, g):
    problems=[]
    labels = g.result_index.tolist()
    if len(set(map(repr,labels))) != len(labels): problems.append("dup-labels")
    if any(isnull(l) for l in labels): problems.append("null-label")
    groups = g.groups
    keylist = list(keys.to_pylist() if hasattr(keys,"to_pylist") else (keys.to_list() if hasattr(keys,"to_list") else keys.tolist()))
    seen=set()
    for lab, pos in groups.items():
        pos = list(map(int,pos))
        if pos != sorted(pos): problems.append("unsorted-positions")
        for p in pos:
            kv = keylist[p]
            if isnull(kv): problems.append("null-row-in-group"); continue
            if isinstance(kv, pd.Timestamp) or isinstance(lab, pd.Timestamp): ok = pd.Timestamp(kv)==pd.Timestamp(lab)
            else: ok = kv==lab
            if not ok: problems.append("label-mismatch")
        if seen & set(pos): problems.append("overlap")
        seen |= set(pos)
    nonnull = {i for i,k in enumerate(keylist) if not isnull(k)}
    if seen != nonnull: problems.append("not-partition")
    # same code iff same key
    bylab = collections.defaultdict(set)
    for lab,pos in groups.items():
        for p in pos: bylab[repr(keylist[int(p)])].add(repr(lab))
    if any(len(v)>1 for v in bylab.values()): problems.append("key-split")
    if int(g.key_count.sum()) != len(nonnull): problems.append("count-sum")
    sz = g.size()
    if int(sz.sum()) != len(nonnull): problems.append("size-sum")
    return problems
diffs=collections.Counter(); ex={}; n=0; t0=time.time()
L=int(sys.argv[1])
for thr in (10**9, 1):
  core.THRESHOLD_FOR_CHUNKED_FACTORIZE = thr
  for kd in ("float","int","str","dt","cat","bool"):
    for cont in ("np","pd","pa_chunk2","pl"):
      for sort in (True, False):
        for l in range(1,L+1):
          for word in itertools.product(["N",0,1,2], repeat=l):
            keys = keys_for(word, kd, cont)
            if keys is None: continue
            n+=1
            try:
                with contextlib.redirect_stdout(io.StringIO()):
                    g = GroupBy(keys, sort=sort); probs = check(word, keys, g)
            except Exception as e:
                probs=["EXC:"+type(e).__name__+":"+str(e)[:40]]
            for p in set(probs):
                key=(thr,kd,cont,sort,p); diffs[key]+=1; ex.setdefault(key, word)
print("evals",n,"%.1fs"%(time.time()-t0))
for k,v in sorted(diffs.items(), key=lambda kv:-kv[1])[:80]: print(v,k,"e.g.",ex[k])
