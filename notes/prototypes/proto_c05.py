import sys, os; sys.path.insert(0, os.environ.get("VERIF_REPO", "/repo"))
# throwaway: mask == filter (C05) and null-key == deleted (C06) differential prototype
import os, sys
os.environ.setdefault("NUMBA_NUM_THREADS","2")
import itertools, collections, warnings, io, contextlib, time, math, types
import numpy as np, pandas as pd
warnings.simplefilter("ignore")
m_ = types.ModuleType("pandas.core.reshape.util")
m_.cartesian_product = lambda X: [g.ravel() for g in np.meshgrid(*X, indexing="ij")]
sys.modules["pandas.core.reshape.util"] = m_
from groupby_lib import GroupBy
U = [4,-1,16,2,-64,8,32]; LAB=[3.5,1.0,2.25]
def alphabet(G):
    A=[("N",1,1)]
    for g in range(G): A += [(g,1,0),(g,0,1),(g,1,1)]
    return A
def conc(word):
    keys = np.array([LAB[k] if k!="N" else np.nan for k,_,_ in word])
    vals = np.array([float(U[i]) if x else np.nan for i,(_,x,_) in enumerate(word)])
    mask = np.array([bool(m) for _,_,m in word]); return keys, vals, mask
T = pd.date_range("2020-01-01", periods=8, freq="h").values.astype("M8[ns]")
OPS = {
 "sum": lambda g,v,m,t: g.sum(v, mask=m), "mean": lambda g,v,m,t: g.mean(v, mask=m), "min": lambda g,v,m,t: g.min(v, mask=m), "last": lambda g,v,m,t: g.last(v, mask=m),
 "count": lambda g,v,m,t: g.count(v, mask=m), "size": lambda g,v,m,t: g.size(mask=m), "var": lambda g,v,m,t: g.var(v, mask=m),
 "median": lambda g,v,m,t: g.median(v, mask=m), "quantile": lambda g,v,m,t: g.quantile(v, [0.5], mask=m), "apply": lambda g,v,m,t: g.apply(v, np.sum, mask=m),
 "agg": lambda g,v,m,t: g.agg(v, ["sum","min"], mask=m),
 "cumsum": lambda g,v,m,t: g.cumsum(v, mask=m), "cummax": lambda g,v,m,t: g.cummax(v, mask=m), "cumsum_nsk": lambda g,v,m,t: g.cumsum(v, mask=m, skip_na=False), "cumcount": lambda g,v,m,t: g.cumcount(mask=m),
 "rsum": lambda g,v,m,t: g.rolling_sum(v, 2, min_periods=1, mask=m), "rmin": lambda g,v,m,t: g.rolling_min(v, 2, min_periods=1, mask=m), "rmean2": lambda g,v,m,t: g.rolling_mean(v, 2, mask=m),
 "shift": lambda g,v,m,t: g.shift(v, 1, mask=m), "diff": lambda g,v,m,t: g.diff(v, 1, mask=m),
 "ema": lambda g,v,m,t: g.ema(v, alpha=0.5, mask=m), "ema_t": lambda g,v,m,t: g.ema(v, halflife="1h", times=t, mask=m),
 "ratio": lambda g,v,m,t: g.ratio(v, v*2, mask=m), "sum_margins": lambda g,v,m,t: g.sum(v, mask=m, margins=True),
}
ROWALIGNED = {"cumsum","cummax","cumsum_nsk","cumcount","rsum","rmin","rmean2","shift","diff","ema","ema_t"}
def norm(r):
    if isinstance(r, pd.DataFrame): r = r.stack(future_stack=True) if r.columns.nlevels==1 else r.stack()
    out=[]
    for l,v in zip(r.index.tolist(), r.tolist()):
        if v is None or (isinstance(v,float) and math.isnan(v)) or v is pd.NaT: v=None
        out.append((l,v))
    return out
def run(f,*a):
    try:
        with contextlib.redirect_stdout(io.StringIO()): return f(*a)
    except Exception as e: return ("EXC", type(e).__name__, str(e)[:50])
diffs=collections.Counter(); ex={}; n=0; t0=time.time()
mode = sys.argv[1]
for L in range(1,4):
    for word in itertools.product(alphabet(2), repeat=L):
        keys, vals, mask = conc(word); t = T[:L]
        if mode=="mask":
            if mask.all(): continue
            sel = mask
            for op,f in OPS.items():
                n+=1
                a = run(f, GroupBy(keys), vals, mask, t)
                b = run(f, GroupBy(keys[sel]), vals[sel], None, t[sel]) if sel.any() else "EMPTY"
                if isinstance(a,tuple) or isinstance(b,tuple) or isinstance(b,str):
                    if (isinstance(a,tuple) and a[0]=="EXC") != (isinstance(b,tuple) and b and b[0]=="EXC") or isinstance(b,str):
                        key=(op,"exc", str(a)[:60] if isinstance(a,tuple) else "ok", str(b)[:60] if isinstance(b,(tuple,str)) else "ok"); diffs[key]+=1; ex.setdefault(key, word)
                    continue
                if op in ROWALIGNED:
                    na = [v for (l,v),s in zip(norm(a), sel) if s]; nb_ = [v for l,v in norm(b)]
                else:
                    na = sorted(norm(a), key=repr); nb_ = sorted(norm(b), key=repr)
                if na != nb_:
                    key=(op,"diff"); diffs[key]+=1; ex.setdefault(key,(word,na,nb_))
        else:  # nullkey
            sel = ~np.isnan(keys)
            if sel.all(): continue
            m = None if mask.all() else mask
            for op,f in OPS.items():
                n+=1
                a = run(f, GroupBy(keys), vals, m, t)
                b = run(f, GroupBy(keys[sel]), vals[sel], None if m is None else m[sel], t[sel]) if sel.any() else "EMPTY"
                if isinstance(a,tuple) or isinstance(b,tuple) or isinstance(b,str):
                    if (isinstance(a,tuple) and a[0]=="EXC") != (isinstance(b,tuple) and b and b[0]=="EXC") or isinstance(b,str):
                        key=(op,"exc", str(a)[:60] if isinstance(a,tuple) else "ok", str(b)[:60] if isinstance(b,(tuple,str)) else "ok"); diffs[key]+=1; ex.setdefault(key, word)
                    continue
                if op in ROWALIGNED:
                    na = [v for (l,v),s in zip(norm(a), sel) if s]; nb_ = [v for l,v in norm(b)]
                else:
                    na = sorted(norm(a), key=repr); nb_ = sorted(norm(b), key=repr)
                if na != nb_:
                    key=(op,"diff"); diffs[key]+=1; ex.setdefault(key,(word,na,nb_))
print(mode,"evals",n,"%.1fs"%(time.time()-t0))
for k,v in sorted(diffs.items(), key=lambda kv:-kv[1])[:40]: print(v,k,"\n     e.g.",ex[k])
