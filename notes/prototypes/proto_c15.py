import sys, os; sys.path.insert(0, os.environ.get("VERIF_REPO", "/repo"))
# throwaway: C15 head/tail/nth reference; C20 nanops vs numpy
import itertools, collections, warnings, io, contextlib, time, math
import numpy as np, pandas as pd
warnings.simplefilter("ignore")
import groupby_lib.groupby.core as core
from groupby_lib import GroupBy, nanops
LAB=[3.5,1.0,2.25]
def run(f):
    try:
        with contextlib.redirect_stdout(io.StringIO()): return f()
    except Exception as e: return ("EXC", type(e).__name__, str(e)[:70])
diffs=collections.Counter(); ex={}; n=0; t0=time.time()
def flag(key, e): diffs[key]+=1; ex.setdefault(key,e)
Lmax=int(sys.argv[1])
INDEXES = {"none": lambda L: None, "shuffled": lambda L: [(7*i+3)%L + 100 for i in range(L)][::-1], "str": lambda L: [f"r{L-i}" for i in range(L)], "dup": lambda L: [i//2 for i in range(L)]}
for thr in ():
  core.THRESHOLD_FOR_CHUNKED_FACTORIZE = thr
  for sort in (True, False):
    for L in range(1,Lmax+1):
      for word in itertools.product(["N",0,1,2], repeat=L):
        keys = np.array([LAB[k] if k!="N" else np.nan for k in word]); vals = np.arange(L)*10+5
        grp = collections.OrderedDict()
        for i,k in enumerate(word):
            if k!="N": grp.setdefault(k, []).append(i)
        maxsz = max([len(v) for v in grp.values()], default=0)
        for iname, mk in INDEXES.items():
            idx = mk(L)
            v = vals if idx is None else pd.Series(vals, index=idx)
            lab = list(range(L)) if idx is None else idx
            for op in ("head","tail","nth"):
                ns = range(0, maxsz+2) if op!="nth" else range(-maxsz-1, maxsz+2)
                for nn in ns:
                    n+=1
                    r = run(lambda: getattr(GroupBy(keys, sort=sort), op)(v, nn, keep_input_index=True))
                    exp = {}
                    for k, pos in grp.items():
                        if op=="head": sel = pos[:nn]
                        elif op=="tail": sel = pos[len(pos)-nn:] if nn>0 else []
                        else:
                            sel = [pos[nn]] if -len(pos) <= nn < len(pos) else []
                        exp[k] = [(lab[p], int(vals[p])) for p in sel]
                    if isinstance(r, tuple): flag((thr,sort,iname,op,"exc",r[1],r[2]), (word,nn)); continue
                    got_rows = list(zip(r.index.tolist(), [int(x) for x in r.tolist()]))
                    # per group sequence in output order: identify group by position via value (values unique)
                    pos_of_val = {int(vals[p]): p for p in range(L)}
                    got = collections.OrderedDict()
                    bad=False
                    for labl, val in got_rows:
                        p = pos_of_val.get(val)
                        if p is None or lab[p]!=labl or word[p]=="N": bad=True; break
                        got.setdefault(word[p], []).append((labl,val))
                    if bad: flag((thr,sort,iname,op,"bad-row"), (word,nn,got_rows)); continue
                    if {k:v for k,v in got.items()} != {k:v for k,v in exp.items() if v}: flag((thr,sort,iname,op,"rows"), (word,nn,got_rows,exp))
print("C15 evals",n,"%.1fs"%(time.time()-t0))
for k,v in sorted(diffs.items(), key=lambda kv:-kv[1])[:30]: print(v,k,"\n     e.g.",ex[k])
# ---- C20 nanops
diffs.clear(); ex.clear(); n=0
U=[4.,-1.,16.,2.,-64.,8.,32.,1.5]
for L in range(1,7):
    for pat in itertools.product([0,1], repeat=L):
        for dt in ("float64","float32","int64"):
            if dt=="int64" and not all(pat): continue
            a = np.array([U[i] if x else np.nan for i,x in enumerate(pat)]).astype(dt) if dt!="int64" else np.array([int(U[i]*2) for i in range(L)])
            for T in range(1,9):
                for fn, ref in (("nansum",np.nansum),("nanmean",np.nanmean),("nanmin",np.nanmin),("nanmax",np.nanmax),("nanvar",lambda x: np.nanvar(x,ddof=1)),("nanstd",lambda x: np.nanstd(x,ddof=1)),("count",lambda x: int((~np.isnan(x.astype(float))).sum()))):
                    n+=1
                    r = run(lambda: getattr(nanops,fn)(a, n_threads=T) if fn!="count" else nanops.count(a))
                    with np.errstate(all="ignore"): e = ref(a)
                    if isinstance(r,tuple): flag((fn,dt,"exc",r[1],r[2][:40]),(pat,T)); continue
                    if isinstance(r, complex) or np.iscomplexobj(r): flag((fn,dt,'complex'),(pat,T,r,e)); continue
                    r=float(r); e=float(e)
                    if not ((math.isnan(r) and math.isnan(e)) or abs(r-e) <= 1e-5*max(1,abs(e)) ): flag((fn,dt,"val"),(pat,T,r,e))
print("C20 evals",n)
for k,v in sorted(diffs.items(), key=lambda kv:-kv[1])[:30]: print(v,k,"\n     e.g.",ex[k])
