import sys, os; sys.path.insert(0, os.environ.get("VERIF_REPO", "/repo"))
# throwaway: facade vs pandas vs core on small frames
import itertools, collections, warnings, io, contextlib, time, math
import numpy as np, pandas as pd
warnings.simplefilter("ignore")
from groupby_lib import GroupBy
from groupby_lib.groupby import install_groupby_fast
with contextlib.redirect_stdout(io.StringIO()): install_groupby_fast()
U = [4,-1,16,2,-64,8,32]
def run(f):
    try:
        with contextlib.redirect_stdout(io.StringIO()): return f()
    except Exception as e: return ("EXC", type(e).__name__, str(e)[:70])
def isn(v): return v is None or v is pd.NaT or v is pd.NA or (isinstance(v,float) and math.isnan(v))
def norm(r, rows_mask=None):
    if isinstance(r, tuple): return r
    if isinstance(r, pd.Series): r = r.to_frame(name=r.name if r.name is not None else "_")
    out={}
    for c in r.columns:
        col = r[c]
        out[str(c)] = [(i, None if isn(v) else (float(v) if isinstance(v,(int,float,np.integer,np.floating,bool,np.bool_)) else v)) for i,v in zip(r.index.tolist(), col.tolist())]
    return out
diffs=collections.Counter(); ex={}; n=0; t0=time.time()
def flag(key, e): diffs[key]+=1; ex.setdefault(key,e)
INDEXES = {"default": lambda L: None, "shuffled": lambda L: [(7*i+3)%L + 100 for i in range(L)][::-1], "dup": lambda L: [i//2 for i in range(L)]}
AGGS = ["sum","mean","min","max","count","size","std","var","first","last"]
CUMS = ["cumsum","cummin","cummax","cumcount"]
Lmax=int(sys.argv[1])
for L in range(1,Lmax+1):
  for word in itertools.product([("N",1),(0,0),(0,1),(1,0),(1,1)], repeat=L):
    for kd in ("str","int"):
        if kd=="int" and any(k=="N" for k,_ in word): continue
        keys = [(["b","a"][k] if k!="N" else None) for k,_ in word] if kd=="str" else [[2,1][k] for k,_ in word]
        x = [float(U[i]) if v else np.nan for i,(_,v) in enumerate(word)]
        y = [int(U[i])*3 for i in range(L)]
        for iname, mk in INDEXES.items():
            df = pd.DataFrame({"k": keys, "x": x, "y": y}, index=mk(L))
            for sel_name, sel in (("all", lambda g: g), ("x", lambda g: g["x"]), ("[[x]]", lambda g: g[["x"]])):
                for op in AGGS:
                    n+=1
                    a = run(lambda: getattr(sel(df.groupby_fast("k")), op)())
                    b = run(lambda: getattr(sel(df.groupby("k")), op)())
                    na, nb_ = norm(a), norm(b)
                    if op=="size" and isinstance(na,dict) and isinstance(nb_,dict): na={"_":list(na.values())[0]}; nb_={"_":list(nb_.values())[0]}
                    if na != nb_:
                        if isinstance(na,tuple): flag((kd,iname,sel_name,op,"exc",na[1],na[2][:50]), (word,))
                        elif isinstance(nb_,tuple): flag((kd,iname,sel_name,op,"pandas-exc",nb_[1]), (word,))
                        elif set(na)!=set(nb_): flag((kd,iname,sel_name,op,"columns",tuple(na),tuple(nb_)), (word,))
                        else: flag((kd,iname,sel_name,op,"values"), (word,na,nb_))
                for op in CUMS:
                    n+=1
                    a = run(lambda: getattr(sel(df.groupby_fast("k")), op)())
                    b = run(lambda: getattr(sel(df.groupby("k")), op)())
                    na, nb_ = norm(a), norm(b)
                    if isinstance(na,tuple) or isinstance(nb_,tuple):
                        if na!=nb_: flag((kd,iname,sel_name,op,"exc", na[1] if isinstance(na,tuple) else "ok", nb_[1] if isinstance(nb_,tuple) else "ok"), (word,))
                        continue
                    if set(na)!=set(nb_): flag((kd,iname,sel_name,op,"columns",tuple(na),tuple(nb_)), (word,)); continue
                    # compare only at rows with non-null value in that column and non-null key
                    bad=False
                    for c in na:
                        src = df[c] if c in df else None
                        for pos,((ia,va),(ib,vb)) in enumerate(zip(na[c], nb_[c])):
                            if ia!=ib: bad="index"; break
                            if keys[pos] is None: continue
                            if src is not None and isn(src.iloc[pos]): continue
                            if va!=vb: bad="values"; break
                        if bad: break
                    if bad: flag((kd,iname,sel_name,op,bad), (word,na,nb_))
print("evals",n,"%.1fs"%(time.time()-t0))
for k,v in sorted(diffs.items(), key=lambda kv:-kv[1])[:60]: print(v,k,"\n     e.g.",ex[k])
