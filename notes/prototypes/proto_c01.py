import sys, os; sys.path.insert(0, os.environ.get("VERIF_REPO", "/repo"))
# throwaway: mini enumeration for C01 to discover oracle subtleties / disagreement classes
import os
os.environ.setdefault("NUMBA_NUM_THREADS","2")
import itertools, collections, warnings, io, contextlib, time, math
import numpy as np, pandas as pd
warnings.simplefilter("ignore")
from groupby_lib import GroupBy
U = [4,-1,16,2,-64,8,32]
LABELS = {"int": [3,1,2], "float":[3.5,1.0,2.25], "str":["c","a","b"]}
def alphabet(G):
    A=[("N",1,1)]
    for g in range(G): A += [(g,1,0),(g,0,1),(g,1,1)]
    return A
def concretize(word, kd, vd):
    n=len(word)
    lab = LABELS[kd]
    if kd=="int":
        # null int keys impossible -> use float keys for N ; here skip words with N
        keys = np.array([lab[k] if k!="N" else -999 for k,_,_ in word])
    elif kd=="float": keys = np.array([lab[k] if k!="N" else np.nan for k,_,_ in word])
    else: keys = np.array([lab[k] if k!="N" else None for k,_,_ in word], dtype=object)
    if vd=="float64": vals = np.array([float(U[i]) if x else np.nan for i,(_,x,_) in enumerate(word)])
    elif vd=="int64": vals = np.array([U[i] if x else np.iinfo(np.int64).min for i,(_,x,_) in enumerate(word)], dtype=np.int64)
    mask = np.array([bool(m) for _,_,m in word])
    return keys, vals, mask
def ref(word, kd, op, sort=True):
    lab = LABELS[kd]; groups = collections.OrderedDict()
    order=[]
    for i,(k,x,m) in enumerate(word):
        if k!="N" and lab[k] not in order: order.append(lab[k])
        if k=="N" or not m: continue
        groups.setdefault(lab[k], []).append(U[i] if x else None)
    items = sorted(groups.items()) if sort else [(l,groups[l]) for l in order if l in groups]
    out=[]
    for l, vs in items:
        nn=[v for v in vs if v is not None]
        if op=="size": r=len(vs)
        elif op=="count": r=len(nn)
        elif op=="sum": r=sum(nn)
        elif op=="mean": r=sum(nn)/len(nn) if nn else None
        elif op=="min": r=min(nn) if nn else None
        elif op=="max": r=max(nn) if nn else None
        elif op=="first": r=nn[0] if nn else None
        elif op=="last": r=nn[-1] if nn else None
        out.append((l,r))
    return out
def norm(res, vd):
    out=[]
    for l,v in zip(res.index.tolist(), res.tolist()):
        if v is None or (isinstance(v,float) and math.isnan(v)) or (vd=="int64" and v==np.iinfo(np.int64).min): v=None
        out.append((l,v))
    return out
OPS=["size","count","sum","mean","min","max","first","last"]
diffs=collections.Counter(); examples={}; n=0; t=time.time()
for kd in ("float","str"):
  for vd in ("float64","int64"):
    for sort in (True, False):
      for L in range(1,4):
        for word in itertools.product(alphabet(2), repeat=L):
            if vd=='int64' and any(x==0 for _,x,_ in word): continue
            keys, vals, mask = concretize(word, kd, vd)
            use_mask = not mask.all()
            try:
                with contextlib.redirect_stdout(io.StringIO()):
                    g = GroupBy(keys, sort=sort)
            except Exception as e:
                diffs[(kd,vd,sort,"ctor",type(e).__name__)]+=1; examples.setdefault((kd,vd,sort,"ctor",type(e).__name__), word); continue
            for op in OPS:
                n+=1
                exp = ref(word, kd, op, sort)
                try:
                    kw = dict(mask=mask) if use_mask else {}
                    res = g.size(**kw) if op=="size" else getattr(g,op)(vals, **kw)
                    got = norm(res, vd)
                except Exception as e:
                    got = ("EXC", type(e).__name__, str(e)[:60])
                if got != exp:
                    key=(kd,vd,sort,op, got[0] if got and got[0]=="EXC" else "diff", got[1] if got and got[0]=="EXC" else "")
                    diffs[key]+=1; examples.setdefault(key,(word,exp,got))
print("evals",n,"%.1fs"%(time.time()-t))
for k,v in sorted(diffs.items(), key=lambda kv:-kv[1])[:60]: print(v,k,"\n     e.g.",examples[k])
