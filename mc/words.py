"""Alphabets, index-addressable enumerations (shortest words first), compositions, slices."""
from __future__ import annotations

import itertools
from functools import lru_cache

NULLK = -1  # abstract null key


# ----------------------------------------------------------------------------- alphabets
def A(G: int):
    """rows (k, x, m) with mask; irrelevant rows collapsed to the most dangerous representative"""
    out = [(NULLK, 1, 1)]
    out += [(g, 1, 0) for g in range(G)]
    out += [(g, x, 1) for g in range(G) for x in (0, 1)]
    return out


def A0(G: int):
    """rows (k, x) without mask"""
    return [(NULLK, 1)] + [(g, x) for g in range(G) for x in (0, 1)]


def AF(G: int):
    """full rows (k, x): null keys may carry a null value too (kernel contract)"""
    return [(k, x) for k in [NULLK] + list(range(G)) for x in (0, 1)]


def K(G: int):
    return [NULLK] + list(range(G))


# ----------------------------------------------------------------------------- word spaces
class WordSpace:
    """All words of length lo..hi over an alphabet, shortest first, lexicographic within a length."""

    def __init__(self, alphabet, lo: int, hi: int):
        self.alphabet = list(alphabet)
        self.k = len(self.alphabet)
        self.lo, self.hi = lo, hi
        self._offsets = []
        tot = 0
        for l in range(lo, hi + 1):
            self._offsets.append(tot)
            tot += self.k ** l
        self._size = tot

    def __len__(self):
        return self._size

    def at(self, i: int):
        assert 0 <= i < self._size
        l = self.lo
        for off_i, off in enumerate(self._offsets):
            if i >= off:
                l = self.lo + off_i
                base = off
        i -= base
        digits = []
        for _ in range(l):
            digits.append(i % self.k)
            i //= self.k
        digits.reverse()
        return [self.alphabet[d] for d in digits]


class Radix:
    """Mixed-radix product of named finite dimensions; first dimension varies slowest."""

    def __init__(self, dims):
        self.dims = [(n, (v if isinstance(v, int) else len(v)), v) for n, v in dims]
        self._size = 1
        for _, s, _ in self.dims:
            self._size *= s

    def __len__(self):
        return self._size

    def at(self, i: int) -> dict:
        out = {}
        for name, s, v in reversed(self.dims):
            d = i % s
            i //= s
            out[name] = d if isinstance(v, int) else (v.at(d) if hasattr(v, "at") else v[d])
        return out


# ----------------------------------------------------------------------------- compositions etc.
@lru_cache(None)
def compositions(n: int, max_parts: int, min_parts: int = 1, allow_empty: bool = False):
    """All ordered ways to cut n rows into min_parts..max_parts consecutive blocks."""
    out = []
    lo = 0 if allow_empty else 1
    def rec(rem, parts, acc):
        if parts == 1:
            if rem >= lo:
                out.append(tuple(acc + [rem]))
            return
        for first in range(lo, rem - (parts - 1) * lo + 1):
            rec(rem - first, parts - 1, acc + [first])
    for p in range(min_parts, max_parts + 1):
        if n == 0 and not allow_empty:
            continue
        rec(n, p, [])
    return tuple(out)


@lru_cache(None)
def all_slices(n: int, steps=(None,)):
    """Every slice with start/stop in {None} U [-n-1, n+1]."""
    b = [None] + list(range(-n - 1, n + 2))
    return tuple((s, e, st) for s in b for e in b for st in steps)


@lru_cache(None)
def bool_masks(n: int):
    return tuple(itertools.product((0, 1), repeat=n))


@lru_cache(None)
def position_lists(n: int, max_len: int):
    """All sequences (permuted, repeated) of positions 0..n-1 with length 0..max_len."""
    out = []
    for l in range(0, max_len + 1):
        out.extend(itertools.product(range(n), repeat=l))
    return tuple(out)
