"""Controlled executor + stateless schedule explorer (DESIGN.md section 1.5).

`submit()` records the task; nothing runs.  Every step of `as_completed` / `shutdown` / `wait` /
`map` is a choice point over the pending set: the scheduler picks which task runs to completion
next, in the calling thread.  Completion order = execution order = the chosen permutation.
"""
from __future__ import annotations

import concurrent.futures as real
import types


class ReplayDivergence(Exception):
    pass


class Schedule:
    """A choice sequence; beyond its end the default policy applies (0 = FIFO, -1 = LIFO)."""

    def __init__(self, choices=(), default=0):
        self.prefix = list(choices)
        self.default = default
        self.choices = []  # choices actually taken
        self.points = []  # number of alternatives at every choice point
        self.invocations = []  # pool sizes (tasks per executor)

    def pick(self, n: int) -> int:
        pos = len(self.choices)
        if pos < len(self.prefix):
            c = self.prefix[pos]
            if not (0 <= c < n):
                raise ReplayDivergence(f"choice {c} at point {pos} but only {n} alternatives")
        else:
            c = 0 if self.default == 0 else n - 1
        self.choices.append(c)
        self.points.append(n)
        return c


_CUR = [Schedule()]


def current() -> Schedule:
    return _CUR[0]


def set_schedule(s: Schedule):
    _CUR[0] = s


class _Future(real.Future):
    pass


# ---------------------------------------------------------------------------------------------
# task footprints: the partial-order argument ("tasks write only memory they allocate themselves",
# DESIGN.md 1.5) is checked on every execution that runs with FOOTPRINT.enabled: around every task
# body all array memory reachable from the arguments / closures of ALL tasks of the pool, from the
# results of the tasks already finished and from the library's module-level state is compared
# element by element.  Reported (sound for real threads, where the bodies do overlap in time):
#   * write-write: two tasks of one pool change the same element of shared memory,
#   * a task changes the result array of another, finished task.
# Disjoint writes into one shared output array are NOT reported.
# ---------------------------------------------------------------------------------------------
class _Footprint:
    def __init__(self):
        self.enabled = False
        self.conflicts = []  # human-readable, deduplicated by the caller
        self.tasks_checked = 0
        self.arrays_tracked = 0
        self.elements_written = 0

    def reset(self, enabled=None):
        if enabled is not None:
            self.enabled = enabled
        self.conflicts = []
        self.tasks_checked = self.arrays_tracked = self.elements_written = 0


FOOTPRINT = _Footprint()


def _library_uses_locks() -> bool:
    """The write-write rule is sound only for unsynchronised tasks.  The library has no lock today;
    should one appear (module `threading` imported by a groupby_lib module, or a lock object among its
    globals) the footprint verdicts are withheld - the harness would first have to model the lock."""
    import threading

    lock_types = (type(threading.Lock()), type(threading.RLock()))
    for m in _lib_modules():
        for v in list(vars(m).values()):
            if v is threading or isinstance(v, lock_types):
                return True
    return False


_LIBMODS = [0, []]


def _lib_modules():
    import sys

    if _LIBMODS[0] != len(sys.modules):
        _LIBMODS[1] = [m for n, m in list(sys.modules.items())
                       if (n == "groupby_lib" or n.startswith("groupby_lib.")) and m is not None]
        _LIBMODS[0] = len(sys.modules)
    return _LIBMODS[1]


def _reach(obj, out, seen, depth=0):
    """Collect (label-free) every ndarray / Arrow buffer reachable from obj (bounded walk)."""
    import functools
    import types as _t

    import numpy as np

    if obj is None or depth > 6 or isinstance(obj, (str, bytes, int, float, bool, complex, type)):
        return
    oid = id(obj)
    if oid in seen:
        return
    seen.add(oid)
    if isinstance(obj, np.ndarray):
        out.append(obj)
        return
    mod = type(obj).__module__ or ""
    try:
        if mod.startswith("pandas"):
            import pandas as pd

            if isinstance(obj, pd.DataFrame):
                for j in range(obj.shape[1]):
                    _reach(obj.iloc[:, j]._values, out, seen, depth + 1)
                _reach(obj.index, out, seen, depth + 1)
                return
            if isinstance(obj, pd.MultiIndex):
                for c in obj.codes:
                    _reach(np.asarray(c), out, seen, depth + 1)
                return
            if isinstance(obj, (pd.Series, pd.Index)):
                _reach(obj._values, out, seen, depth + 1)
                if isinstance(obj, pd.Series):
                    _reach(obj.index, out, seen, depth + 1)
                return
            if isinstance(obj, pd.Categorical):
                _reach(obj._ndarray, out, seen, depth + 1)
                return
            for attr in ("_pa_array", "_ndarray", "_data", "_mask"):
                if hasattr(obj, attr):
                    _reach(getattr(obj, attr), out, seen, depth + 1)
            return
        if mod.startswith("pyarrow"):
            import pyarrow as pa

            if isinstance(obj, pa.ChunkedArray):
                for c in obj.chunks:
                    _reach(c, out, seen, depth + 1)
            elif isinstance(obj, pa.Array):
                for b in obj.buffers():
                    if b is not None and b.size:
                        out.append(np.frombuffer(b, dtype=np.uint8))
            return
        if mod.startswith("polars"):
            _reach(obj.to_arrow(), out, seen, depth + 1)
            return
    except Exception:
        return
    if isinstance(obj, dict):
        for v in list(obj.values())[:64]:
            _reach(v, out, seen, depth + 1)
        return
    if isinstance(obj, (list, tuple, set, frozenset)) or mod.startswith("numba.typed"):
        try:
            for v in list(obj)[:64]:
                _reach(v, out, seen, depth + 1)
        except Exception:
            pass
        return
    if isinstance(obj, functools.partial):
        _reach(obj.func, out, seen, depth + 1)
        _reach(obj.args, out, seen, depth + 1)
        _reach(obj.keywords, out, seen, depth + 1)
        return
    if isinstance(obj, _t.MethodType):
        _reach(obj.__self__, out, seen, depth + 1)
        _reach(obj.__func__, out, seen, depth + 1)
        return
    if isinstance(obj, _t.FunctionType):
        _reach(obj.__defaults__, out, seen, depth + 1)
        _reach(obj.__kwdefaults__, out, seen, depth + 1)
        for cell in obj.__closure__ or ():
            try:
                _reach(cell.cell_contents, out, seen, depth + 1)
            except ValueError:
                pass
        return
    if hasattr(obj, "py_func"):  # numba dispatcher
        _reach(obj.py_func, out, seen, depth + 1)
        return
    if mod.startswith("groupby_lib") and hasattr(obj, "__dict__"):
        _reach(vars(obj), out, seen, depth + 1)


_GLOBALS_CACHE = {}  # module name -> (fingerprint, [objects worth walking])


def _watch_list(m):
    """Module-level objects that can hold array state: data globals, class attributes, and
    functions carrying defaults / closures.  Recomputed only when the module's namespace changes
    (identity of every bound object), walked on every call (their contents may change in place)."""
    import types as _t

    d = vars(m)
    fpr = hash(tuple((k, id(v)) for k, v in d.items()))
    hit = _GLOBALS_CACHE.get(m.__name__)
    if hit is not None and hit[0] == fpr:
        return hit[1]

    def func_state(f):
        f = f.__func__ if isinstance(f, (staticmethod, classmethod)) else f
        f = getattr(f, "py_func", f)
        if not isinstance(f, _t.FunctionType):
            return None
        simple = (type(None), str, bytes, int, float, bool, complex, type, _t.FunctionType,
                  _t.BuiltinFunctionType, _t.ModuleType)
        vals = list(f.__defaults__ or ()) + list((f.__kwdefaults__ or {}).values())
        if any(not isinstance(v, simple) and not hasattr(v, "py_func") for v in vals):
            return f
        for cell in f.__closure__ or ():
            try:
                v = cell.cell_contents
            except ValueError:
                return f
            if not isinstance(v, simple) and not hasattr(v, "py_func"):
                return f
        return None

    watch = []
    for name, val in list(d.items()):
        if name.startswith("__") or isinstance(val, _t.ModuleType):
            continue
        if isinstance(val, type):
            if (val.__module__ or "").startswith("groupby_lib"):
                for k, v in list(vars(val).items()):
                    if k.startswith("__") or isinstance(v, property):
                        continue
                    fs = func_state(v)
                    if fs is not None:
                        watch.append(fs)
                    elif not callable(v) and not isinstance(v, (staticmethod, classmethod, str, int, float)) \
                            and type(v).__name__ not in ("cached_property", "_abc_data", "member_descriptor",
                                                         "getset_descriptor"):
                        watch.append(v)
            continue
        if isinstance(val, _t.FunctionType) or hasattr(val, "py_func"):
            if str(getattr(val, "__module__", "")).startswith("groupby_lib"):
                fs = func_state(val)
                if fs is not None:
                    watch.append(fs)
            continue
        if callable(val) or isinstance(val, (str, int, float, bool, bytes)):
            continue
        watch.append(val)
    _GLOBALS_CACHE[m.__name__] = (fpr, watch)
    return watch


def _globals_arrays(out, seen):
    for m in _lib_modules():
        for val in _watch_list(m):
            _reach(val, out, seen, 3)


def _elem_addr(a):
    import numpy as np

    base = a.__array_interface__["data"][0]
    off = np.zeros(a.shape, dtype=np.int64)
    for ax, (n, st) in enumerate(zip(a.shape, a.strides)):
        sh = [1] * a.ndim
        sh[ax] = n
        off = off + (np.arange(n, dtype=np.int64) * st).reshape(sh)
    return (base + off).ravel()


def _bounds(a):
    ad = _elem_addr(a)
    return (int(ad.min()), int(ad.max()) + a.itemsize) if ad.size else None


def _owned(a, ranges):
    """True if `a` does not overlap any memory that was shared when the pool started (a task that
    returns a view of a pre-allocated, shared output array does not own it)."""
    b = _bounds(a)
    if b is None:
        return False
    return not any(b[0] < hi and lo < b[1] for lo, hi in ranges)


def _snapshot(arrs):
    import numpy as np

    snap = []
    for a in arrs:
        if a.dtype.kind == "O":
            snap.append([id(x) for x in a.ravel().tolist()])
        else:
            snap.append(np.array(a, copy=True, order="C"))
    return snap


def _changed_addresses(arrs, snap):
    import numpy as np

    changed = set()
    for a, b in zip(arrs, snap):
        if a.size == 0:
            continue
        if a.dtype.kind == "O":
            now = [id(x) for x in a.ravel().tolist()]
            ch = np.array([x != y for x, y in zip(now, b)], dtype=bool)
        else:
            cur = np.ascontiguousarray(a)
            ch = (cur.reshape(-1).view(np.uint8).reshape(a.size, a.itemsize)
                  != b.reshape(-1).view(np.uint8).reshape(a.size, a.itemsize)).any(axis=1)
        if ch.any():
            changed.update(_elem_addr(a)[ch].tolist())
    return changed


class ControlledExecutor:
    def __init__(self, max_workers=None, **kw):
        self.pending = []
        self.n_submitted = 0
        self._fp = None
        self.all = []  # every task of this pool, in submission order (footprint check)
        self.writes = {}  # task index -> set of element addresses it changed

    def __enter__(self):
        return self

    def __exit__(self, *a):
        self.shutdown()
        return False

    def submit(self, fn, *args, **kw):
        f = _Future()
        f._task = (fn, args, kw)
        f._ex = self
        self.pending.append(f)
        self.n_submitted += 1
        f._idx = len(self.all)
        self.all.append(f)
        return f

    def map(self, fn, *iterables, timeout=None, chunksize=1):
        fs = [self.submit(fn, *args) for args in zip(*iterables)]
        self.shutdown()
        return iter([f.result() for f in fs])

    def _run_one(self, f):
        fn, args, kw = f._task
        self.pending.remove(f)
        fp = FOOTPRINT.enabled and len(self.all) > 1
        if fp and _library_uses_locks():
            from . import env as _env
            raise _env.BindingBroken("footprint check: groupby_lib uses threading locks, which the "
                                     "controlled executor does not model")
        if fp:
            st = self._fp
            if st is None or st["ntasks"] != len(self.all):
                shared, seen = [], set()
                for g in self.all:
                    _reach(g._task, shared, seen)
                _globals_arrays(shared, seen)
                ranges = [r for r in (_bounds(a) for a in shared) if r is not None]
                st = self._fp = dict(shared=shared, seen=seen, res_of={}, ntasks=len(self.all),
                                     ranges=ranges)
                for g in self.all:
                    if g.done() and g.exception() is None:
                        k = len(shared)
                        _reach(g.result(), shared, seen)
                        for j in range(k, len(shared)):
                            if _owned(shared[j], ranges):
                                st["res_of"][j] = g._idx
            shared, res_of = st["shared"], st["res_of"]
            snap = _snapshot(shared)
            tracked_ids = {(a.__array_interface__['data'][0], a.shape, a.strides) for a in shared}
        try:
            f.set_result(fn(*args, **kw))
        except BaseException as e:  # noqa
            f.set_exception(e)
        if fp:
            FOOTPRINT.tasks_checked += 1
            FOOTPRINT.arrays_tracked += len(shared)
            name = getattr(fn, "__name__", type(fn).__name__)
            mine = _changed_addresses(shared, snap)
            # module-level arrays that exist only since this task ran (a lazily created scratch
            # buffer) count as written by it
            fresh = []
            _globals_arrays(fresh, set())
            for a in fresh:
                key = (a.__array_interface__['data'][0], a.shape, a.strides)
                if a.size and key not in tracked_ids:
                    mine.update(_elem_addr(a).tolist())
                    tracked_ids.add(key)
                    shared.append(a)  # tracked from now on (a later task changing it conflicts)
            FOOTPRINT.elements_written += len(mine)
            if res_of:
                idxs = sorted(res_of)
                hit = _changed_addresses([shared[j] for j in idxs], [snap[j] for j in idxs])
                if hit:
                    FOOTPRINT.conflicts.append(
                        f"task {f._idx} ({name}) changed the result array of another, finished task")
            for other, w in self.writes.items():
                both = mine & w
                if both:
                    FOOTPRINT.conflicts.append(
                        f"tasks {other} and {f._idx} ({name}) of one pool both changed the same "
                        f"{len(both)} element(s) of shared memory (write-write conflict)")
            self.writes[f._idx] = mine
            if f.exception() is None:
                k = len(shared)
                _reach(f.result(), shared, st["seen"])
                for j in range(k, len(shared)):
                    if _owned(shared[j], st["ranges"]):
                        res_of[j] = f._idx

    def shutdown(self, wait=True, **kw):
        if self.n_submitted:
            current().invocations.append(self.n_submitted)
            self.n_submitted = 0
        while self.pending:
            i = current().pick(len(self.pending)) if len(self.pending) > 1 else 0
            self._run_one(self.pending[i])


def as_completed(fs, timeout=None):
    fs = list(fs)
    for f in [f for f in fs if f.done()]:
        yield f
    pend = [f for f in fs if not f.done()]
    while pend:
        i = current().pick(len(pend)) if len(pend) > 1 else 0
        f = pend.pop(i)
        f._ex._run_one(f)
        yield f


def wait(fs, timeout=None, return_when=real.ALL_COMPLETED):
    fs = list(fs)
    for _ in as_completed(fs):
        pass
    return real.DoneAndNotDoneFutures(set(fs), set())


NAMESPACE = types.SimpleNamespace(
    futures=types.SimpleNamespace(
        ThreadPoolExecutor=ControlledExecutor,
        ProcessPoolExecutor=ControlledExecutor,
        as_completed=as_completed,
        wait=wait,
        Future=_Future,
        ALL_COMPLETED=real.ALL_COMPLETED,
        FIRST_COMPLETED=real.FIRST_COMPLETED,
        FIRST_EXCEPTION=real.FIRST_EXCEPTION,
    )
)


def explore(run, bound: int, max_schedules: int = 2000, extra_reversed: bool = True,
            selfcheck: bool = False):
    """Stateless DFS over schedules with at most `bound` deviations from FIFO.

    run(schedule) -> observation (hashable).  Returns dict(schedules, outcomes{obs: first
    schedule}, points_max, invocations, capped).
    """
    outcomes = {}
    n = 0
    points_max = 0
    invocations = None
    capped = False
    stack = [[]]
    while stack:
        if n >= max_schedules:
            capped = True
            break
        prefix = stack.pop()
        s = Schedule(prefix)
        set_schedule(s)
        obs = run(s)
        n += 1
        if selfcheck and n == 1:
            # determinism self-check: the same schedule replayed on a fresh run must take the same
            # choice points and give the identical observation before any difference is believed
            s2 = Schedule(list(s.choices))
            set_schedule(s2)
            obs2 = run(s2)
            n += 1
            if obs2 != obs or s2.points != s.points:
                raise ReplayDivergence("the same schedule replayed twice gave different observations "
                                       f"or choice points ({s.points} vs {s2.points})")
        outcomes.setdefault(obs, list(s.choices))
        points_max = max(points_max, len(s.points))
        if invocations is None:
            invocations = list(s.invocations)
        for i in range(len(prefix), len(s.points)):
            devs = sum(1 for c in s.choices[:i] if c)
            if devs + 1 > bound:
                continue
            for alt in range(1, s.points[i]):
                stack.append(s.choices[:i] + [alt])
    if extra_reversed:
        s = Schedule([], default=-1)
        set_schedule(s)
        obs = run(s)
        n += 1
        outcomes.setdefault(obs, ["LIFO"])
    set_schedule(Schedule())
    return dict(schedules=n, outcomes=outcomes, points_max=points_max,
                invocations=invocations or [], capped=capped)
