"""Controlled executor + stateless schedule explorer (DESIGN.md section 1.5).

`submit()` records the task; nothing runs.  Every step of `as_completed` / `shutdown` / `wait` /
`map` is a choice point over the pending set: the scheduler picks which task runs to completion
next, in the calling thread.  Completion order = execution order = the chosen permutation.
"""
from __future__ import annotations

import concurrent.futures as real
import types


class ReplayDivergence(Exception):
    pass


class Schedule:
    """A choice sequence; beyond its end the default policy applies (0 = FIFO, -1 = LIFO)."""

    def __init__(self, choices=(), default=0):
        self.prefix = list(choices)
        self.default = default
        self.choices = []  # choices actually taken
        self.points = []  # number of alternatives at every choice point
        self.invocations = []  # pool sizes (tasks per executor)

    def pick(self, n: int) -> int:
        pos = len(self.choices)
        if pos < len(self.prefix):
            c = self.prefix[pos]
            if not (0 <= c < n):
                raise ReplayDivergence(f"choice {c} at point {pos} but only {n} alternatives")
        else:
            c = 0 if self.default == 0 else n - 1
        self.choices.append(c)
        self.points.append(n)
        return c


_CUR = [Schedule()]


def current() -> Schedule:
    return _CUR[0]


def set_schedule(s: Schedule):
    _CUR[0] = s


class _Future(real.Future):
    pass


class ControlledExecutor:
    def __init__(self, max_workers=None, **kw):
        self.pending = []
        self.n_submitted = 0

    def __enter__(self):
        return self

    def __exit__(self, *a):
        self.shutdown()
        return False

    def submit(self, fn, *args, **kw):
        f = _Future()
        f._task = (fn, args, kw)
        f._ex = self
        self.pending.append(f)
        self.n_submitted += 1
        return f

    def map(self, fn, *iterables, timeout=None, chunksize=1):
        fs = [self.submit(fn, *args) for args in zip(*iterables)]
        self.shutdown()
        return iter([f.result() for f in fs])

    def _run_one(self, f):
        fn, args, kw = f._task
        self.pending.remove(f)
        try:
            f.set_result(fn(*args, **kw))
        except BaseException as e:  # noqa
            f.set_exception(e)

    def shutdown(self, wait=True, **kw):
        if self.n_submitted:
            current().invocations.append(self.n_submitted)
            self.n_submitted = 0
        while self.pending:
            i = current().pick(len(self.pending)) if len(self.pending) > 1 else 0
            self._run_one(self.pending[i])


def as_completed(fs, timeout=None):
    fs = list(fs)
    for f in [f for f in fs if f.done()]:
        yield f
    pend = [f for f in fs if not f.done()]
    while pend:
        i = current().pick(len(pend)) if len(pend) > 1 else 0
        f = pend.pop(i)
        f._ex._run_one(f)
        yield f


def wait(fs, timeout=None, return_when=real.ALL_COMPLETED):
    fs = list(fs)
    for _ in as_completed(fs):
        pass
    return real.DoneAndNotDoneFutures(set(fs), set())


NAMESPACE = types.SimpleNamespace(
    futures=types.SimpleNamespace(
        ThreadPoolExecutor=ControlledExecutor,
        ProcessPoolExecutor=ControlledExecutor,
        as_completed=as_completed,
        wait=wait,
        Future=_Future,
        ALL_COMPLETED=real.ALL_COMPLETED,
        FIRST_COMPLETED=real.FIRST_COMPLETED,
        FIRST_EXCEPTION=real.FIRST_EXCEPTION,
    )
)


def explore(run, bound: int, max_schedules: int = 2000, extra_reversed: bool = True):
    """Stateless DFS over schedules with at most `bound` deviations from FIFO.

    run(schedule) -> observation (hashable).  Returns dict(schedules, outcomes{obs: first
    schedule}, points_max, invocations, capped).
    """
    outcomes = {}
    n = 0
    points_max = 0
    invocations = None
    capped = False
    stack = [[]]
    while stack:
        if n >= max_schedules:
            capped = True
            break
        prefix = stack.pop()
        s = Schedule(prefix)
        set_schedule(s)
        obs = run(s)
        n += 1
        outcomes.setdefault(obs, list(s.choices))
        points_max = max(points_max, len(s.points))
        if invocations is None:
            invocations = list(s.invocations)
        for i in range(len(prefix), len(s.points)):
            devs = sum(1 for c in s.choices[:i] if c)
            if devs + 1 > bound:
                continue
            for alt in range(1, s.points[i]):
                stack.append(s.choices[:i] + [alt])
    if extra_reversed:
        s = Schedule([], default=-1)
        set_schedule(s)
        obs = run(s)
        n += 1
        outcomes.setdefault(obs, ["LIFO"])
    set_schedule(Schedule())
    return dict(schedules=n, outcomes=outcomes, points_max=points_max,
                invocations=invocations or [], capped=capped)
