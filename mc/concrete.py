"""Concretisation of abstract rows into real arrays, and normalisation of results back into
plain Python values (None = NULL).  See DESIGN.md sections 1.1-1.3."""
from __future__ import annotations

import math

import numpy as np
import pandas as pd

# position values: signed, permuted powers of two -> every subset sum is unique and exact
U_SIGNED = (4, -1, 16, 2, -64, 8, 32, -128, 1024, -256, 512, 2048)
U_UNSIGNED = (4, 1, 16, 2, 64, 8, 32, 128, 3, 5, 6, 7)
U_BOOL = (True, False, True, True, False, True, False, False, True, False, True, True)

INT_MIN = np.iinfo(np.int64).min

# base instants beyond 2**53 with odd sub-units, so that a float64 detour is visible
_BASE = {"ns": 1_600_000_000_123_456_789, "us": 1_600_000_000_123_457, "ms": 1_600_000_000_123,
         "s": 1_600_000_003}
_STEP = {"ns": 1, "us": 1, "ms": 1, "s": 1}


def rot(seq, seed):
    seq = tuple(seq)
    if not seq:
        return seq
    s = seed % len(seq)
    return seq[s:] + seq[:s]


def u_table(dtype: str, seed: int = 0):
    """Python values (exact) for positions 0.. for a given dtype name."""
    dt = np.dtype(_np_name(dtype))
    if dt.kind == "b":
        return rot(U_BOOL, seed)
    if dt.kind == "u":
        if dt.itemsize == 1:
            return rot((200, 1, 100, 2, 64, 8, 32, 128, 3, 5, 6, 7), seed)
        return rot(U_UNSIGNED, seed)
    if dt.kind == "i":
        if dtype == "i8big":
            return tuple((1 << 54) * np.sign(u) + u * 3 + 1 for u in rot(U_SIGNED, seed))
        if dt.itemsize == 1:
            # large magnitudes first: a sum of two of them does not fit the input width
            return tuple(u for u in rot((100, -1, 90, 2, -100, 64, 32, -127, 1, -3, 5, -7), seed))
        if dt.itemsize == 2:
            return tuple(u for u in rot((30000, -1, 20000, 2, -30000, 8, 32, -128, 1024, -256, 512, 2048), seed))
        if dt.itemsize == 4 and dtype != "i8big":
            return tuple(u for u in rot((2_000_000_000, -1, 1_500_000_000, 2, -2_000_000_000, 8, 32, -128,
                                         1024, -256, 512, 2048), seed))
        return rot(U_SIGNED, seed)
    if dt.kind == "f":
        sc = 0.5 if seed % 2 else 1.0
        return tuple(float(u) * sc for u in rot(U_SIGNED, seed))
    if dt.kind in "mM":
        unit = np.datetime_data(dt)[0]
        if dt.kind == "M":
            return tuple(_BASE[unit] + 2 * u * _STEP[unit] for u in rot(U_SIGNED, seed))
        return tuple((1 << 54) + 2 * u + 1 if unit == "ns" else 1000 + u
                     for u in rot(U_SIGNED, seed))
    raise ValueError(dtype)


def _np_name(dtype: str) -> str:
    return {"i8big": "i8"}.get(dtype, dtype)


def can_null(dtype: str) -> bool:
    return np.dtype(_np_name(dtype)).kind in "fmM"


def make_values(xs, dtype: str, seed: int = 0):
    """xs: sequence of 0 (null) / 1 (non-null).  Returns (ndarray, python list with None)."""
    dt = np.dtype(_np_name(dtype))
    tab = u_table(dtype, seed)
    py = [tab[i] if x else None for i, x in enumerate(xs)]
    if dt.kind == "f":
        arr = np.array([np.nan if v is None else v for v in py], dtype=dt)
    elif dt.kind in "mM":
        arr = np.array([INT_MIN if v is None else v for v in py], dtype="i8").view(dt)
    else:
        if any(v is None for v in py):
            raise ValueError("dtype cannot hold nulls")
        arr = np.array(py, dtype=dt)
    if len(py) == 0:
        arr = np.empty(0, dtype=dt)
    return arr, py


def sentinel(dt: np.dtype):
    """Value the library documents as 'null' for dtypes that cannot hold one."""
    dt = np.dtype(dt)
    if dt.kind == "i":
        return int(np.iinfo(dt).min)
    if dt.kind == "u":
        return int(np.iinfo(dt).max)
    if dt.kind == "b":
        return False
    return None


def norm_array(arr) -> list:
    """numpy array -> list of Python scalars, None for NaN/NaT."""
    arr = np.asarray(arr)
    k = arr.dtype.kind
    if k == "f":
        return [None if (v != v) else float(v) for v in arr.tolist()]
    if k in "iu":
        return [int(v) for v in arr.tolist()]
    if k == "b":
        return [bool(v) for v in arr.tolist()]
    if k in "mM":
        return [None if v == INT_MIN else int(v) for v in arr.view("i8").tolist()]
    if k == "O":
        return [norm_scalar(v) for v in arr.tolist()]
    if k in "US":
        return [str(v) for v in arr.tolist()]
    raise TypeError(f"cannot normalise dtype {arr.dtype}")


def norm_scalar(x):
    if x is None or x is pd.NaT or x is pd.NA:
        return None
    if isinstance(x, (np.datetime64, np.timedelta64)):
        return None if np.isnat(x) else int(x.astype("i8"))
    if isinstance(x, pd.Timestamp):
        return int(x.as_unit("ns").value)
    if isinstance(x, pd.Timedelta):
        return int(x.as_unit("ns").value)
    if isinstance(x, (bool, np.bool_)):
        return bool(x)
    if isinstance(x, (int, np.integer)):
        return int(x)
    if isinstance(x, (float, np.floating)):
        return None if math.isnan(x) else float(x)
    if isinstance(x, (str, np.str_)):
        return str(x)
    if isinstance(x, tuple):
        return tuple(norm_scalar(v) for v in x)
    return x


def same(exp, obs, dt=None, rtol=0.0) -> bool:
    """Expected (None = NULL) against observed normalised scalar of result dtype dt."""
    if exp is None:
        if obs is None:
            return True
        if dt is not None:
            s = sentinel(dt)
            return s is not None and obs == s and type(obs) is type(s)
        return False
    if obs is None:
        return False
    if isinstance(exp, bool) or isinstance(obs, bool):
        return bool(exp) == bool(obs) and (isinstance(obs, (bool, int)))
    if rtol and isinstance(exp, float):
        return abs(exp - obs) <= rtol * max(1.0, abs(exp), abs(obs))
    return exp == obs
