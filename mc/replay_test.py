"""Plain pytest entry for replay files (no explorer involved):

    VERIF_REPLAY=/verif/replays/C05/reduce-xxxx.json /venv/bin/python -m pytest -q /verif/mc/replay_test.py

The test re-executes exactly the recorded case on the real code in /repo (or VERIF_REPO) and fails
if the property is violated on it.
"""
import json
import os
import sys
from pathlib import Path

sys.path.insert(0, str(Path(__file__).resolve().parent.parent))


def test_replay():
    path = os.environ.get("VERIF_REPLAY")
    if not path:
        import pytest

        pytest.skip("set VERIF_REPLAY=<replay file>")
    from mc import env

    env.setup_env()
    from mc import engine

    data = json.loads(Path(path).read_text())
    rc = engine.replay(data["property"], path, quiet=False)
    assert rc == 0, f"property {data['property']} violated on the recorded case: {data['summary']}"
