"""Catalogue of public GroupBy operations with fixed small arguments, shared by the relational
properties (C03, C05, C06, C07, C13, C18, C19).

Every entry: name -> Op(kind, fn(gb, ctx) -> library result, mask kinds accepted, value kinds).
ctx carries the concrete arguments: V (values), M (mask object or None), V2 (second value set with
the same nullity), T (timestamps), n.
kind:  reduce   result indexed by group labels
       aligned  one value per input row, input order
       gsorted  one value per row, arranged group by group under a (label, original index) index
       select   subset of the input rows under their original index labels
       misc     anything else (dict, scalar, ...)
"""
from __future__ import annotations

import numpy as np


class Op:
    __slots__ = ("name", "kind", "fn", "masks", "vkinds", "needs_values")

    def __init__(self, name, kind, fn, masks=("none", "bool", "slice", "pos"), vkinds="fiub",
                 needs_values=True):
        self.name, self.kind, self.fn = name, kind, fn
        self.masks = masks
        self.vkinds = vkinds
        self.needs_values = needs_values


def _sum(x):
    return x.sum()


def _span(x):
    return x.max() - x.min()


def _demean(x):
    return x - x.mean()


def _two(x):
    return np.array([x.min(), x.max()])


BOOL = ("none", "bool")
ALLM = ("none", "bool", "slice", "pos")
NOM = ("none",)
NUM = "fiub"
ANY = "fiubmM"

_OPS = [
    # ---------------------------------------------------------------- reductions
    Op("size", "reduce", lambda g, c: g.size(mask=c.M), ALLM, ANY, needs_values=False),
    Op("size_obsF", "reduce", lambda g, c: g.size(mask=c.M, observed_only=False), ALLM, ANY,
       needs_values=False),
    Op("count", "reduce", lambda g, c: g.count(c.V, mask=c.M), ALLM, ANY),
    Op("sum", "reduce", lambda g, c: g.sum(c.V, mask=c.M), ALLM, "fiubm"),
    Op("mean", "reduce", lambda g, c: g.mean(c.V, mask=c.M), ALLM, NUM),
    Op("min", "reduce", lambda g, c: g.min(c.V, mask=c.M), ALLM, ANY),
    Op("max", "reduce", lambda g, c: g.max(c.V, mask=c.M), ALLM, ANY),
    Op("first", "reduce", lambda g, c: g.first(c.V, mask=c.M), ALLM, ANY),
    Op("last", "reduce", lambda g, c: g.last(c.V, mask=c.M), ALLM, ANY),
    Op("var", "reduce", lambda g, c: g.var(c.V, mask=c.M), ALLM, "fiu"),
    Op("std0", "reduce", lambda g, c: g.std(c.V, mask=c.M, ddof=0), ALLM, "fiu"),
    Op("median", "reduce", lambda g, c: g.median(c.V, mask=c.M), BOOL, "fiu"),
    Op("quantile", "reduce", lambda g, c: g.quantile(c.V, q=[0.25, 0.75], mask=c.M), BOOL, "fiu"),
    Op("apply_sum", "reduce", lambda g, c: g.apply(c.V, _sum, mask=c.M), BOOL, "fiu"),
    Op("apply_two", "reduce", lambda g, c: g.apply(c.V, _two, mask=c.M), BOOL, "fiu"),
    Op("agg_list", "reduce", lambda g, c: g.agg(c.V, ["sum", "max"], mask=c.M), ALLM, "fiu"),
    Op("ratio", "reduce", lambda g, c: g.ratio(c.V, c.V2, mask=c.M), ALLM, "fiu"),
    Op("sum_obsF", "reduce", lambda g, c: g.sum(c.V, mask=c.M, observed_only=False), ALLM, "fiu"),
    # ---------------------------------------------------------------- transform
    Op("sum_t", "aligned", lambda g, c: g.sum(c.V, mask=c.M, transform=True), ALLM, "fiub"),
    Op("mean_t", "aligned", lambda g, c: g.mean(c.V, mask=c.M, transform=True), ALLM, "fiub"),
    Op("min_t", "aligned", lambda g, c: g.min(c.V, mask=c.M, transform=True), ALLM, ANY),
    Op("last_t", "aligned", lambda g, c: g.last(c.V, mask=c.M, transform=True), ALLM, ANY),
    Op("count_t", "aligned", lambda g, c: g.count(c.V, mask=c.M, transform=True), ALLM, ANY),
    Op("size_t", "aligned", lambda g, c: g.size(mask=c.M, transform=True), ALLM, ANY,
       needs_values=False),
    Op("median_t", "aligned", lambda g, c: g.median(c.V, mask=c.M, transform=True), BOOL, "fiu"),
    # ---------------------------------------------------------------- cumulative
    Op("cumsum", "aligned", lambda g, c: g.cumsum(c.V, mask=c.M), BOOL, "fiubm"),
    Op("cumsum_noskip", "aligned", lambda g, c: g.cumsum(c.V, mask=c.M, skip_na=False), BOOL, "f"),
    Op("cummin", "aligned", lambda g, c: g.cummin(c.V, mask=c.M), BOOL, ANY),
    Op("cummax", "aligned", lambda g, c: g.cummax(c.V, mask=c.M), BOOL, ANY),
    Op("cumcount", "aligned", lambda g, c: g.cumcount(mask=c.M), BOOL, ANY, needs_values=False),
    # ---------------------------------------------------------------- rolling / shift / diff
    Op("rolling_sum", "aligned",
       lambda g, c: g.rolling_sum(c.V, window=2, min_periods=1, mask=c.M), BOOL, "fiu"),
    Op("rolling_mean", "aligned",
       lambda g, c: g.rolling_mean(c.V, window=2, min_periods=2, mask=c.M), BOOL, "fiu"),
    Op("rolling_min", "aligned",
       lambda g, c: g.rolling_min(c.V, window=2, min_periods=1, mask=c.M), BOOL, "fiumM"),
    Op("rolling_max", "aligned",
       lambda g, c: g.rolling_max(c.V, window=3, min_periods=1, mask=c.M), BOOL, "fiumM"),
    Op("shift", "aligned", lambda g, c: g.shift(c.V, window=1, mask=c.M), BOOL, "fiumM"),
    Op("shift2", "aligned", lambda g, c: g.shift(c.V, window=2, mask=c.M), BOOL, "fiumM"),
    Op("diff", "aligned", lambda g, c: g.diff(c.V, window=1, mask=c.M), BOOL, "fiumM"),
    Op("rolling_sum_g", "gsorted",
       lambda g, c: g.rolling_sum(c.VS, window=2, min_periods=1, mask=c.M, index_by_groups=True),
       BOOL, "f"),
    # ---------------------------------------------------------------- EMA
    Op("ema_alpha", "aligned", lambda g, c: g.ema(c.V, alpha=0.5, mask=c.M), BOOL, "fi"),
    Op("ema_halflife", "aligned", lambda g, c: g.ema(c.V, halflife=1.5, mask=c.M), BOOL, "fi"),
    Op("ema_timed", "aligned", lambda g, c: g.ema(c.V, halflife="2s", times=c.T, mask=c.M), BOOL, "fi"),
    Op("ema_alpha_g", "gsorted",
       lambda g, c: g.ema(c.VS, alpha=0.5, mask=c.M, index_by_groups=True), BOOL, "f"),
    # ---------------------------------------------------------------- row selection (no mask)
    Op("head1", "select", lambda g, c: g.head(c.VS, 1, keep_input_index=True), NOM, ANY),
    Op("head2", "select", lambda g, c: g.head(c.VS, 2, keep_input_index=True), NOM, ANY),
    Op("tail1", "select", lambda g, c: g.tail(c.VS, 1, keep_input_index=True), NOM, ANY),
    Op("tail2", "select", lambda g, c: g.tail(c.VS, 2, keep_input_index=True), NOM, ANY),
    Op("nth0", "select", lambda g, c: g.nth(c.VS, 0, keep_input_index=True), NOM, ANY),
    Op("nth1", "select", lambda g, c: g.nth(c.VS, 1, keep_input_index=True), NOM, ANY),
    Op("nth_m1", "select", lambda g, c: g.nth(c.VS, -1, keep_input_index=True), NOM, ANY),
    # ---------------------------------------------------------------- misc views
    Op("groups", "misc", lambda g, c: g.groups, NOM, ANY, needs_values=False),
    Op("key_count", "reduce", lambda g, c: g.key_count, NOM, ANY, needs_values=False),
    Op("ngroups", "misc", lambda g, c: g.ngroups, NOM, ANY, needs_values=False),
]

OPS = {o.name: o for o in _OPS}


class Ctx:
    __slots__ = ("V", "M", "V2", "T", "VS", "n")

    def __init__(self, V=None, M=None, V2=None, T=None, VS=None, n=0):
        self.V, self.M, self.V2, self.T, self.VS, self.n = V, M, V2, T, VS, n


def names(kinds=None, mask_kind=None, vkind=None, exclude=()):
    out = []
    for o in _OPS:
        if kinds and o.kind not in kinds:
            continue
        if mask_kind and mask_kind not in o.masks:
            continue
        if vkind and vkind not in o.vkinds:
            continue
        if o.name in exclude:
            continue
        out.append(o.name)
    return out


def times_for(n, gaps=None, unit="ns", origin=1_600_000_000):
    """Strictly increasing timestamps with irregular gaps (seconds 1,2,5,...) in `unit`."""
    gaps = gaps or (1, 2, 5, 1, 3, 2, 4, 1, 1, 2)
    t = origin
    secs = []
    for i in range(n):
        secs.append(t)
        t += gaps[i % len(gaps)]
    mult = {"ns": 10**9, "us": 10**6, "ms": 10**3, "s": 1}[unit]
    return np.array([s * mult for s in secs], dtype="i8").view(f"M8[{unit}]"), secs
