"""GroupBy-level harness: concrete key arrays for abstract group ids, result normalisation,
expected label order.  Shared by the properties that drive the public GroupBy API."""
from __future__ import annotations

import io
import contextlib
import math

import numpy as np
import pandas as pd

from . import concrete as C

_UNIT_NS = {"ns": 1, "us": 1_000, "ms": 1_000_000, "s": 1_000_000_000}

# label tables: first-appearance order, sorted order and code order all differ
_LABELS = {
    "int": (3, 1, 2, 0),
    "float": (3.5, 1.0, 2.25, 0.5),
    "str": ("c", "a", "b", "aa"),
    "bool": (True, False),
    "dt": (1_600_000_300, 1_600_000_100, 1_600_000_200, 1_600_000_000),  # seconds
    "cat": ("c", "a", "b", "z"),  # categories in this (unsorted) order, "z" unused when G <= 3
    "td": (300, 100, 200, 0),  # seconds
}
CAT_CATEGORIES = ("z", "c", "a", "b")  # category order != sorted order, 'z' unused


def label_table(kind: str, seed: int = 0):
    base = kind.split("_")[0]
    tab = _LABELS[base]
    if base in ("bool", "cat"):
        return tab
    # rotate only the first three entries (keeps the 'all orders differ' property for seed%3)
    head = C.rot(tab[:3], seed)
    return tuple(head) + tuple(tab[3:])


def key_can_null(kind: str) -> bool:
    if kind in ("int_I64", "bool_na"):  # pandas nullable (masked) dtypes hold pd.NA
        return True
    if kind in ("str_S", "str_U"):
        return False
    return kind.split("_")[0] not in ("int", "bool") and kind != "range"


def make_key(ks, kind: str, seed: int = 0, name=None):
    """ks: abstract ids (-1 = null).  Returns (array-like key, [normalised label per id])."""
    base = kind.split("_")[0]
    tab = label_table(kind, seed)
    n = len(ks)
    if kind == "int_I64":
        arr = pd.Series([None if k < 0 else tab[k] for k in ks], dtype="Int64")
        labels = [int(v) for v in tab]
    elif kind == "bool_na":
        arr = pd.Series([None if k < 0 else tab[k] for k in ks], dtype="boolean")
        labels = [bool(v) for v in tab]
    elif kind == "float_F64":
        arr = pd.Series([None if k < 0 else tab[k] for k in ks], dtype="Float64")
        labels = [float(v) for v in tab]
    elif kind == "float_f4":
        arr = np.array([np.nan if k < 0 else tab[k] for k in ks], dtype="f4")
        labels = [float(v) for v in tab]
    elif kind == "str_S":
        if any(k < 0 for k in ks):
            raise ValueError("byte strings cannot be null")
        arr = np.array([tab[k].encode() for k in ks], dtype="S2") if n else np.empty(0, dtype="S2")
        labels = [v.encode() for v in tab]
    elif base == "td":
        unit = kind.split("_")[1] if "_" in kind else "ns"
        mult = _UNIT_NS["s"] // _UNIT_NS[unit]
        ints = [C.INT_MIN if k < 0 else tab[k] * mult for k in ks]
        arr = np.array(ints, dtype="i8").view(f"m8[{unit}]")
        labels = [int(v) * _UNIT_NS["s"] for v in tab]
    elif base == "int":
        if any(k < 0 for k in ks):
            raise ValueError("int keys cannot be null")
        dt = {"int": "i8", "int_i4": "i4", "int_u1": "u1"}.get(kind, "i8")
        arr = np.array([tab[k] for k in ks], dtype=dt)
        labels = [int(v) for v in tab]
    elif base == "float":
        arr = np.array([np.nan if k < 0 else tab[k] for k in ks], dtype="f8")
        labels = [float(v) for v in tab]
    elif base == "str":
        vals = [None if k < 0 else tab[k] for k in ks]
        if kind == "str_series":
            arr = pd.Series(vals, dtype="str")
        elif kind == "str_U":
            if any(k < 0 for k in ks):
                raise ValueError("fixed-width strings cannot be null")
            arr = np.array(vals, dtype="U2") if n else np.empty(0, dtype="U2")
        else:
            arr = np.array(vals, dtype=object)
        labels = list(tab)
    elif base == "bool":
        if any(k < 0 for k in ks):
            raise ValueError("bool keys cannot be null")
        arr = np.array([tab[k] for k in ks], dtype=bool)
        labels = [bool(v) for v in tab]
    elif base == "dt":
        unit = kind.split("_")[1] if "_" in kind else "ns"
        mult = _UNIT_NS["s"] // _UNIT_NS[unit]
        ints = [C.INT_MIN if k < 0 else tab[k] * mult for k in ks]
        arr = np.array(ints, dtype="i8").view(f"M8[{unit}]")
        if kind.endswith("_tz"):
            arr = pd.Series(arr).dt.tz_localize("UTC").dt.tz_convert("US/Eastern")
        labels = [int(v) * _UNIT_NS["s"] for v in tab]
    elif base == "cat":
        codes = [(-1 if k < 0 else CAT_CATEGORIES.index(tab[k])) for k in ks]
        arr = pd.Categorical.from_codes(codes, categories=list(CAT_CATEGORIES))
        labels = list(tab)
    else:
        raise ValueError(kind)
    if name is not None:
        arr = pd.Series(arr, name=name)
    return arr, labels


def label_sort_key(kind: str):
    base = kind.split("_")[0]
    if base == "cat":
        return lambda lab: CAT_CATEGORIES.index(lab)
    return lambda lab: lab


def expected_order(present_ids, ks, kinds, labels_per_key, sort: bool, bool_lenient: bool = True):
    """Order of the group ids (tuples for several keys) in the result index.
    present_ids: iterable of ids (or tuples) that must be listed."""
    present = list(dict.fromkeys(present_ids))
    multi = isinstance(kinds, (list, tuple))
    if not multi:
        kinds, labels_per_key = [kinds], [labels_per_key]
        tup = lambda g: (g,)
    else:
        tup = lambda g: g
    single_cat = (not multi) and kinds[0].split("_")[0] == "cat"
    single_bool = bool_lenient and (not multi) and kinds[0] == "bool"  # NumPy booleans only
    if sort or single_cat or single_bool:
        # categoricals always come in category order; bool keys as (False, True)
        keyf = [label_sort_key(k) for k in kinds]
        return sorted(present, key=lambda g: tuple(kf(labels_per_key[j][tup(g)[j]])
                                                   for j, kf in enumerate(keyf)))
    # first appearance in the key arrays given to the constructor (mask independent)
    first = {}
    for i, k in enumerate(ks):
        if k not in first:
            first[k] = i
    return sorted(present, key=lambda g: first[g])


# --------------------------------------------------------------------------- normalisation
def norm_values(obj):
    """pandas Series / Index / ndarray -> (list of python scalars with None, dtype string)."""
    if isinstance(obj, (pd.Series, pd.Index)):
        dt = obj.dtype
        if isinstance(dt, np.dtype):
            return norm_np(obj.to_numpy()), str(dt)
        if isinstance(dt, pd.DatetimeTZDtype):
            ser = pd.Series(obj)
            arr = ser.dt.tz_convert("UTC").dt.tz_localize(None).to_numpy()
            return norm_np(arr), str(dt)
        if isinstance(dt, pd.CategoricalDtype):
            return [C.norm_scalar(v) for v in pd.Series(obj).astype(object).tolist()], str(dt)
        return [norm_any(v) for v in obj.tolist()], str(dt)
    arr = np.asarray(obj)
    return norm_np(arr), str(arr.dtype)


def norm_any(v):
    if isinstance(v, pd.Timestamp):
        if v is pd.NaT:
            return None
        if v.tzinfo is not None:
            v = v.tz_convert("UTC").tz_localize(None)
        return int(v.as_unit("ns").value)
    return C.norm_scalar(v)


def norm_np(arr):
    arr = np.asarray(arr)
    if arr.dtype.kind in "mM":
        unit = np.datetime_data(arr.dtype)[0]
        m = _UNIT_NS[unit]
        return [None if v == C.INT_MIN else int(v) * m for v in arr.view("i8").tolist()]
    if arr.dtype.kind == "O":
        return [norm_any(v) for v in arr.tolist()]
    return C.norm_array(arr)


def norm_labels(index):
    if isinstance(index, pd.MultiIndex):
        cols = [norm_values(index.get_level_values(i))[0] for i in range(index.nlevels)]
        return [tuple(c[i] for c in cols) for i in range(len(index))]
    return norm_values(index)[0]


def to_ns(py, dtype: str):
    """expected python values of a temporal dtype -> nanoseconds (as norm_np reports them)"""
    dt = np.dtype(C._np_name(dtype))
    if dt.kind not in "mM":
        return py
    m = _UNIT_NS[np.datetime_data(dt)[0]]
    return [None if v is None else v * m for v in py]


class Outcome:
    """Normal form of a library call: either raised, or a labelled table."""

    __slots__ = ("raised", "kind", "labels", "names", "columns", "values", "dtypes", "name",
                 "container")

    def __init__(self):
        self.raised = None

    def key(self):
        if self.raised:
            return ("raised", self.raised)
        return ("ok", self.kind, tuple(self.labels), tuple(map(str, self.names or ())),
                tuple(map(str, self.columns)),
                tuple((c, tuple(v)) for c, v in self.values.items()),
                tuple(sorted(self.dtypes.items())), str(self.name), self.container)


def normalise(res) -> Outcome:
    import polars as pl

    o = Outcome()
    bogus = {}  # polars: temporal elements that are the int64 minimum WITHOUT being a polars null

    def _bogus(ser):
        if ser.dtype.is_temporal() and len(ser):
            phys = ser.to_physical()
            bad = ((phys == C.INT_MIN) & ser.is_not_null()).fill_null(False).to_list()
            if any(bad):
                return bad
        return None

    if isinstance(res, pl.Series):
        o.container = "polars"
        bogus[0] = _bogus(res)
        res = res.to_pandas()
    elif isinstance(res, pl.DataFrame):
        o.container = "polars"
        for j, c in enumerate(res.columns):
            bogus[j] = _bogus(res[c])
        res = res.to_pandas()
    elif isinstance(res, np.ndarray):
        o.container = "numpy"
        res = pd.Series(res) if res.ndim == 1 else pd.DataFrame(res)
    else:
        o.container = "pandas"
    if isinstance(res, pd.Series):
        o.kind = "series"
        o.labels = norm_labels(res.index)
        o.names = list(res.index.names)
        o.columns = [res.name]
        v, dt = norm_values(res)
        if bogus.get(0):
            # pandas reads the int64 minimum as NaT; in polars it is an ordinary (garbage) instant
            v = ["INT64-MIN-not-a-polars-null" if b else x for x, b in zip(v, bogus[0])]
        o.values = {str(res.name): v}
        o.dtypes = {str(res.name): dt}
        o.name = res.name
    elif isinstance(res, pd.DataFrame):
        o.kind = "frame"
        o.labels = norm_labels(res.index)
        o.names = list(res.index.names)
        o.columns = list(res.columns)
        o.values, o.dtypes = {}, {}
        for j, c in enumerate(res.columns):
            v, dt = norm_values(res.iloc[:, j])
            if bogus.get(j):
                v = ["INT64-MIN-not-a-polars-null" if b else x for x, b in zip(v, bogus[j])]
            o.values[str(c)] = v
            o.dtypes[str(c)] = dt
        o.name = None
    elif isinstance(res, dict):
        o.kind = "dict"
        o.labels = [norm_any(k) for k in res.keys()]
        o.names, o.columns, o.name = [], ["dict"], None
        o.values = {"dict": [tuple(norm_np(np.asarray(v))) for v in res.values()]}
        o.dtypes = {"dict": "object"}
    elif isinstance(res, (bool, int, float, np.generic)) or res is None:
        o.kind = "scalar"
        o.labels, o.names, o.columns, o.name = [0], [], ["scalar"], None
        o.values = {"scalar": [C.norm_scalar(res)]}
        o.dtypes = {"scalar": type(res).__name__}
    else:
        raise TypeError(f"cannot normalise result of type {type(res).__name__}")
    return o


def veq(a, b, rtol=1e-12):
    """equality of two normalised scalars (None = NULL); floats up to rtol"""
    if a is None or b is None:
        return a is None and b is None
    if isinstance(a, tuple) or isinstance(b, tuple):
        return (isinstance(a, tuple) and isinstance(b, tuple) and len(a) == len(b)
                and all(veq(x, y, rtol) for x, y in zip(a, b)))
    if isinstance(a, float) or isinstance(b, float):
        try:
            a, b = float(a), float(b)
        except (TypeError, ValueError):
            return False
        if a == b:
            return True
        if math.isinf(a) or math.isinf(b):
            return False
        return abs(a - b) <= rtol * max(abs(a), abs(b), 1e-300)
    return a == b and (isinstance(a, bool) == isinstance(b, bool) or True)


def table(o: Outcome):
    """{label: tuple of column values} for a normalised result"""
    cols = list(o.values)
    return {lab: tuple(o.values[c][i] for c in cols) for i, lab in enumerate(o.labels)}


def same_mapping(o1: Outcome, o2: Outcome, rtol=1e-12, ordered=False):
    """None if the two labelled results agree (label -> numbers), else a short description."""
    if o1.raised or o2.raised:
        if o1.raised and o2.raised:
            return None if o1.raised.split(":")[0] == o2.raised.split(":")[0] else \
                f"raised {o1.raised} vs raised {o2.raised}"
        return f"raised {o1.raised}" if o1.raised else f"returned, but reference raised {o2.raised}"
    if len(o1.labels) != len(set(o1.labels)):
        return f"duplicate labels {o1.labels}"
    t1, t2 = table(o1), table(o2)
    if set(t1) != set(t2):
        return f"labels {o1.labels} vs {o2.labels}"
    if ordered and o1.labels != o2.labels:
        return f"label order {o1.labels} vs {o2.labels}"
    if list(map(str, o1.columns)) != list(map(str, o2.columns)):
        return f"columns {o1.columns} vs {o2.columns}"
    for lab in t1:
        if not veq(t1[lab], t2[lab], rtol):
            return f"at {lab}: {t1[lab]} vs {t2[lab]}"
    return None


def call(fn, *a, **kw) -> Outcome:
    """Run a library call, swallow its prints, normalise result or exception."""
    try:
        with contextlib.redirect_stdout(io.StringIO()):
            res = fn(*a, **kw)
    except Exception as e:  # noqa
        o = Outcome()
        o.raised = f"{type(e).__name__}: {str(e)[:140]}"
        return o
    try:
        return normalise(res)
    except Exception as e:  # noqa
        o = Outcome()
        o.raised = f"UNNORMALISABLE {type(res).__name__}: {e}"
        return o


def mask_object(mref, n, kind="ndarray", index=None):
    """Reference mask description -> object handed to the library."""
    if mref is None:
        return None
    if isinstance(mref, tuple) and mref[0] == "slice":
        return slice(mref[1], mref[2], mref[3])
    if isinstance(mref, tuple) and mref[0] == "pos":
        return np.array(mref[1], dtype=np.int64)
    arr = np.array(mref, dtype=bool)
    if kind == "series":
        return pd.Series(arr, index=index)
    return arr


# --------------------------------------------------------------------------- datasets
def _take(obj, pos):
    pos = np.asarray(pos, dtype=np.int64)
    if isinstance(obj, pd.Series):
        return obj.iloc[pos].reset_index(drop=True)
    if isinstance(obj, pd.Categorical):
        return obj.take(pos)
    return np.asarray(obj)[pos]


class Data:
    """Concrete dataset for a word of rows (key tuple, x[, m]); rows keep their concrete values
    when a subset is taken (needed by the differential oracles)."""

    def __init__(self, w=None, kinds=("float",), vdtype="f8", seed=0, time_unit="ns"):
        from . import ops as O

        if w is None:
            return
        self.kinds = list(kinds)
        self.vdtype = vdtype
        self.seed = seed
        nk = len(kinds)
        self.n = n = len(w)
        self.kts = [tuple(r[0]) for r in w]
        self.xs = [r[1] for r in w]
        self.ms = [r[2] for r in w] if (w and len(w[0]) > 2) else None
        self.gids = [None if any(k < 0 for k in kt) else (kt if nk > 1 else kt[0])
                     for kt in self.kts]
        self.V, py = C.make_values(self.xs, vdtype, seed)
        self.py = to_ns(py, vdtype)
        self.keys, self.labels = [], []
        for j, kind in enumerate(kinds):
            arr, lab = make_key([kt[j] for kt in self.kts], kind, seed + j)
            self.keys.append(arr)
            self.labels.append(lab)
        # second value set with the same nullity (ratio), timestamps, original positions
        if self.V.dtype.kind == "f":
            self.V2 = np.where(np.isnan(self.V), np.nan, np.abs(self.V) + 1.0).astype(self.V.dtype)
        elif self.V.dtype.kind in "iu":
            self.V2 = (np.abs(self.V.astype("i8")) + 1).astype(self.V.dtype)
        else:
            self.V2 = None
        self.T, self.tsecs = O.times_for(n, unit=time_unit)
        self.pos = list(range(n))

    @property
    def keyarg(self):
        return self.keys[0] if len(self.keys) == 1 else list(self.keys)

    def label_of(self, g):
        if len(self.kinds) == 1:
            return self.labels[0][g]
        return tuple(self.labels[j][g[j]] for j in range(len(self.kinds)))

    def take(self, pos):
        d = Data()
        d.kinds, d.vdtype, d.seed = self.kinds, self.vdtype, self.seed
        d.n = len(pos)
        d.kts = [self.kts[i] for i in pos]
        d.xs = [self.xs[i] for i in pos]
        d.ms = [self.ms[i] for i in pos] if self.ms is not None else None
        d.gids = [self.gids[i] for i in pos]
        d.V = _take(self.V, pos)
        d.py = [self.py[i] for i in pos]
        d.keys = [_take(k, pos) for k in self.keys]
        d.labels = self.labels
        d.V2 = None if self.V2 is None else _take(self.V2, pos)
        d.T = _take(self.T, pos)
        d.tsecs = [self.tsecs[i] for i in pos]
        d.pos = [self.pos[i] for i in pos]
        return d

    def ctx(self, mref=None, mask_kind="ndarray"):
        from . import ops as O

        M = mask_object(mref, self.n, mask_kind)
        VS = pd.Series(self.V, index=pd.Index(self.pos, dtype="int64"))
        return O.Ctx(V=self.V, M=M, V2=self.V2, T=self.T, VS=VS, n=self.n)
