"""Reference semantics in plain Python (lists, dicts, ints, floats).  No numpy reductions.

Values are Python numbers or None (NULL).  Keys are abstract group ids, -1 = null key.
"""
from __future__ import annotations

import math
from fractions import Fraction

REDUCTIONS = ("size", "count", "sum", "mean", "min", "max", "first", "last")
NEUTRAL = "NEUTRAL"  # expected value: either 0 or null


def selected_positions(n, mask=None):
    """mask: None | list of 0/1 | ('slice', s, e, st) | ('pos', [..]) -> row positions in the
    order array indexing would deliver them."""
    if mask is None:
        return list(range(n))
    if isinstance(mask, tuple) and mask and mask[0] == "slice":
        return list(range(n))[slice(mask[1], mask[2], mask[3])]
    if isinstance(mask, tuple) and mask and mask[0] == "pos":
        return [p if p >= 0 else n + p for p in mask[1]]
    return [i for i, m in enumerate(mask) if m]


def group_rows(keys, sel):
    """{group id: [positions in selection order]} for non-null keys."""
    out = {}
    for i in sel:
        k = keys[i]
        if k is None or k < 0:
            continue
        out.setdefault(k, []).append(i)
    return out


def reduce_values(op, vals):
    """vals: the selected values of one group in selection order (None = null)."""
    nn = [v for v in vals if v is not None]
    if op == "size":
        return len(vals)
    if op == "count":
        return len(nn)
    if op == "sum":
        return sum(nn) if nn else 0
    if op == "sum_squares":
        return float(sum(float(v) * float(v) for v in nn)) if nn else 0.0
    if op == "mean":
        return (float(sum(nn)) / len(nn)) if nn else None
    if op == "min":
        return min(nn) if nn else None
    if op == "max":
        return max(nn) if nn else None
    if op == "first":
        return nn[0] if nn else None
    if op == "last":
        return nn[-1] if nn else None
    raise ValueError(op)


def group_reduce(op, keys, vals, ngroups, mask=None):
    """Per-group list of length ngroups (empty groups: size/count/sum -> 0, else None)."""
    sel = selected_positions(len(keys), mask)
    rows = group_rows(keys, sel)
    return [reduce_values(op, [vals[i] for i in rows.get(g, [])]) for g in range(ngroups)]


# ------------------------------------------------------------------ row-aligned operations
def cumulative(op, keys, vals, mask=None, skip_na=True):
    """Expected value at every row (None where unconstrained or NULL is told apart by `defined`).
    Returns (expected list, defined list): defined[i] False = the property does not constrain row i.
    """
    n = len(keys)
    exp, defined = [None] * n, [False] * n
    hist = {}
    for i in range(n):
        k = keys[i]
        if k is None or k < 0:
            continue
        if mask is not None and not mask[i]:
            continue
        h = hist.setdefault(k, [])
        if op == "cumcount":
            exp[i], defined[i] = len(h), True
            h.append(vals[i] if vals is not None else 0)
            continue
        h.append(vals[i])
        nn = [v for v in h if v is not None]
        poisoned = (not skip_na) and any(v is None for v in h)
        if op == "cumsum":
            if poisoned:
                exp[i] = None
            else:
                exp[i] = sum(nn) if nn else (0 if skip_na else None)
            defined[i] = True
            if skip_na and not nn:
                # leading nulls: the sum of nothing - 0 or null, but nothing else
                exp[i] = NEUTRAL
        elif op in ("cummin", "cummax"):
            if poisoned:
                defined[i] = False  # statement defines non-skipping mode for cumsum only
            else:
                exp[i] = (min(nn) if op == "cummin" else max(nn)) if nn else None
                defined[i] = True
        else:
            raise ValueError(op)
    return exp, defined


def rolling(op, keys, vals, window, min_periods=None, mask=None):
    n = len(keys)
    if min_periods is None:
        min_periods = window
    exp, defined = [None] * n, [False] * n
    hist = {}
    for i in range(n):
        k = keys[i]
        if k is None or k < 0:
            continue
        if mask is not None and not mask[i]:
            continue
        h = hist.setdefault(k, [])
        h.append(vals[i])
        defined[i] = True
        if op in ("shift", "diff"):
            if len(h) > window:
                prev = h[-1 - window]
                if op == "shift":
                    exp[i] = prev
                else:
                    exp[i] = None if (prev is None or vals[i] is None) else vals[i] - prev
            continue
        win = h[-window:]
        nn = [v for v in win if v is not None]
        if len(nn) >= min_periods and nn:
            if op == "sum":
                exp[i] = sum(nn)
            elif op == "mean":
                exp[i] = float(sum(nn)) / len(nn)
            elif op == "min":
                exp[i] = min(nn)
            elif op == "max":
                exp[i] = max(nn)
        elif len(nn) >= min_periods and not nn:
            # min_periods == 0: sum of nothing; unconstrained by the statement
            defined[i] = False
    return exp, defined


def ema(keys, vals, alpha=None, halflife=None, times=None, mask=None):
    """Adjusted EMA per group.  times: list of numbers in the halflife's unit (or None)."""
    n = len(keys)
    out = [None] * n
    st = {}
    for i in range(n):
        k = keys[i]
        if k is None or k < 0:
            continue
        s = st.setdefault(k, dict(num=0.0, den=0.0, last=None, t=None, seen=False))
        valid = vals[i] is not None and (mask is None or mask[i])
        if times is None:
            decay = 1.0 - alpha
        else:
            decay = 0.5 ** ((times[i] - s["t"]) / halflife) if s["t"] is not None else 1.0
        s["num"] *= decay
        s["den"] *= decay
        if times is not None:
            s["t"] = times[i]
        if valid:
            s["num"] += float(vals[i])
            s["den"] += 1.0
            s["last"] = s["num"] / s["den"]
        out[i] = s["last"]
    return out


def variance(vals, ddof):
    """Exact two-pass sample variance as a Fraction (None if too few values)."""
    nn = [Fraction(v) for v in vals if v is not None]
    if len(nn) - ddof <= 0:
        return None
    m = sum(nn) / len(nn)
    return sum((v - m) ** 2 for v in nn) / (len(nn) - ddof)
