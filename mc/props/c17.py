"""C17 - the pandas-style facade agrees with the core engine and with pandas."""
from __future__ import annotations

import io
import contextlib
import warnings

import numpy as np
import pandas as pd

from .. import concrete as C
from .. import gbh
from .. import sched
from .. import words as W
from ..engine import Result, Subspace
from .. import env

PROPERTY_ID = "C17"
TECHNIQUE = ("bounded exhaustive enumeration of small frames (key/null/value patterns) x index kinds "
             "x key specifications x column selections x every facade method, executed on the real "
             "facade and compared with pandas' own groupby (null-skipping operations) and with the "
             "core engine (the rest)")
RULE = ("case = one word over rows (key in {null,0,1}, x null/non-null) -> frame with a float column "
        "x (nulls), an int column y and the key as column / index level / external array; every case "
        "runs index kinds x key specs x selections x methods; facets: aggregation vs pandas, "
        "cumulative/rolling vs pandas at rows holding a value, selection honoured, keys not "
        "aggregated, cumcount, iteration; non-trivial = >= 2 rows")
ASSUMPTIONS = [
    'keys also as a callable on the index labels and as a level name given through by= (two-level index); facade head/tail/nth must do what the core engine does for the same call',
    'rolling facade with min_periods given (1, 2), omitted and 0; windows 2 and 3',
    "n <= 3 rows (quick) / 4 (thorough), 2 key labels, 2 value columns",
    "pandas (dropna=True, the default) is the oracle for sum, mean, min, max, count, size, std, var, "
    "first, last, cumsum/cummin/cummax/cumcount, rolling sum/mean/min/max; the core engine for "
    "median, quantile, ema",
    "std/var compared with relative tolerance 1e-9",
]

AGGS = ("sum", "mean", "min", "max", "count", "size", "std", "var", "first", "last")
CUMS = ("cumsum", "cummin", "cummax", "cumcount")
ROLLS = ("sum", "mean", "min", "max")

INDEXES = {
    "default": lambda n: pd.RangeIndex(n),
    "shuffled": lambda n: pd.Index([7, 3, 9, 1, 5][:n], dtype="int64"),
    "strings": lambda n: pd.Index(list("qwert")[:n]),
    "duplicates": lambda n: pd.Index([1, 1, 2, 2, 1][:n], dtype="int64"),
}


def _installed():
    from groupby_lib.groupby.monkey_patch import install_groupby_fast

    if not hasattr(pd.DataFrame, "groupby_fast"):
        with contextlib.redirect_stdout(io.StringIO()):
            install_groupby_fast()


def tab(obj):
    """pandas Series/DataFrame -> {column: {label: value}} with normalised labels/values"""
    if isinstance(obj, pd.Series):
        obj = obj.to_frame(name=obj.name if obj.name is not None else "_")
    labs = gbh.norm_labels(obj.index)
    out = {}
    for j, c in enumerate(obj.columns):
        vals = gbh.norm_values(obj.iloc[:, j])[0]
        out[str(c)] = dict(zip(labs, vals))
    return out


def cmp_tab(a, b, rtol=1e-9, rows=None):
    """None or a description of the first difference between two {col: {label: value}}"""
    if list(a) != list(b):
        return f"columns {list(a)} vs pandas {list(b)}"
    for c in a:
        if set(a[c]) != set(b[c]):
            return f"[{c}] labels {sorted(map(str, a[c]))} vs pandas {sorted(map(str, b[c]))}"
        for l in a[c]:
            if rows is not None and l not in rows:
                continue
            if not gbh.veq(a[c][l], b[c][l], rtol):
                return f"[{c}] at {l}: {a[c][l]} vs pandas {b[c][l]}"
    return None


class FacadeSpace(Subspace):
    shard = 6

    def __init__(self, name, lo, hi, keytype="str", indexes=tuple(INDEXES), seed=0, light=False):
        self.name, self.keytype, self.indexes, self.seed, self.light = name, keytype, indexes, seed, light
        alpha = [(k, x) for k in (-1, 0, 1) for x in (0, 1)]
        self.ws = W.WordSpace(alpha, lo, hi)

    def size(self):
        return len(self.ws)

    def warm_indices(self, n):
        return (n - 1,)

    def case(self, i):
        return dict(w=[list(s) for s in self.ws.at(i)], keytype=self.keytype,
                    indexes=list(self.indexes), seed=self.seed, light=self.light)

    # -------------------------------------------------------------------------------------
    def run(self, case):
        from groupby_lib import GroupBy

        res = Result()
        _installed()
        w = case["w"]
        n = len(w)
        res.nontrivial = n >= 2
        seed = case["seed"]
        if case["keytype"] == "str":
            klabs = ("b", "a")
            kcol = np.array([None if k < 0 else klabs[k] for k, _ in w], dtype=object)
        elif case["keytype"] == "float":
            klabs = (2.5, 1.5)
            kcol = np.array([np.nan if k < 0 else klabs[k] for k, _ in w], dtype="f8")
        else:
            klabs = (20, 10)
            if any(k < 0 for k, _ in w):
                return res
            kcol = np.array([klabs[k] for k, _ in w], dtype="i8")
        X, _ = C.make_values([x for _, x in w], "f8", seed)
        Y = np.array(C.u_table("i8", seed + 1)[:n], dtype="i8")
        seams = env.seams()
        seams.set(executor=sched.NAMESPACE)
        sched.set_schedule(sched.Schedule())
        light = case.get("light")
        warnings.simplefilter("ignore")
        for ixname in case["indexes"]:
            idx = INDEXES[ixname](n)
            df = pd.DataFrame({"k": kcol, "x": X, "y": Y}, index=idx)
            dfl = pd.DataFrame({"x": X, "y": Y}, index=pd.Index(kcol, name="k"))  # key as index level
            keyspecs = [("col", lambda: dict(by="k"), lambda: dict(by="k"), df),
                        ("list", lambda: dict(by=["k"]), lambda: dict(by=["k"]), df),
                        ("array", lambda: dict(by=kcol.copy()), lambda: dict(by=kcol.copy()), df[["x", "y"]]),
                        ("series", lambda: dict(by=df["k"]), lambda: dict(by=df["k"]), df[["x", "y"]])]
            if ixname == "default":
                # a level NAME given through `by` (two-level index: key, row number)
                dfm = pd.DataFrame({"x": X, "y": Y},
                                   index=pd.MultiIndex.from_arrays([kcol, np.arange(n)], names=["k", "r"]))
                keyspecs += [("level-name", lambda: dict(level="k"), lambda: dict(level="k"), dfl),
                             ("level-number", lambda: dict(level=0), lambda: dict(level=0), dfl),
                             ("by-level-name", lambda: dict(by="k"), lambda: dict(by="k"), dfm)]
            if ixname in ("shuffled", "strings") and len(set(idx)) == n:
                # a callable is applied to the index labels
                lab2key = dict(zip(list(idx), kcol.tolist()))
                keyspecs.append(("callable", lambda: dict(by=lambda lab: lab2key[lab]),
                                 lambda: dict(by=lambda lab: lab2key[lab]), df[["x", "y"]]))
            if light:
                keyspecs = keyspecs[:1] + keyspecs[2:3]
            for ksname, fkw, pkw, frame in keyspecs:
                selections = [("none", lambda g: g), ("item", lambda g: g["x"]),
                              ("list1", lambda g: g[["x"]]), ("list2", lambda g: g[["y", "x"]]),
                              ("attr", lambda g: g.x)]
                if light:
                    selections = [selections[0], selections[1], selections[3]]
                for selname, sel in selections:
                    tag0 = f"index={ixname} key={ksname} sel={selname}"

                    def fast():
                        return sel(frame.groupby_fast(**fkw()))

                    def pdg():
                        return sel(frame.groupby(**pkw()))

                    valcols = {"none": [c for c in frame.columns if not (ksname in ("col", "list") and c == "k")],
                               "item": ["x"], "list1": ["x"], "list2": ["y", "x"], "attr": ["x"]}[selname]
                    self._aggregations(res, tag0, fast, pdg)
                    self._cumulative(res, tag0, fast, pdg, frame, kcol, valcols)
                    if not light or selname != "none":
                        self._rolling(res, tag0, fast, frame, kcol, valcols, pkw, sel)
                    self._core_only(res, tag0, fast, frame, kcol, valcols, GroupBy)
                # iteration / groups / ngroups on the unselected object
                self._iteration(res, f"index={ixname} key={ksname}", frame, fkw, kcol)
            # Series facade
            s = df["x"]
            for ksname, kw in (("array", lambda: dict(by=kcol.copy())), ("series", lambda: dict(by=df["k"]))):
                tag0 = f"Series index={ixname} key={ksname}"
                self._aggregations(res, tag0, lambda: s.groupby_fast(**kw()), lambda: s.groupby(**kw()))
                self._cumulative(res, tag0, lambda: s.groupby_fast(**kw()), lambda: s.groupby(**kw()),
                                 s, kcol, ["x"])
                self._iteration(res, tag0, s, kw, kcol)
        seams.reset()
        return res

    # -------------------------------------------------------------------------------------
    def _run(self, f):
        try:
            with contextlib.redirect_stdout(io.StringIO()), warnings.catch_warnings():
                warnings.simplefilter("ignore")
                return f(), None
        except Exception as e:  # noqa
            return None, f"{type(e).__name__}: {str(e)[:110]}"

    def _aggregations(self, res, tag0, fast, pdg):
        for m in AGGS:
            res.execs += 1
            want, perr = self._run(lambda: getattr(pdg(), m)())
            got, err = self._run(lambda: getattr(fast(), m)())
            tag = f"{m} {tag0}"
            if perr:
                continue  # pandas itself rejects this call (e.g. mean of strings)
            if err:
                res.fail("total", f"{tag}: raised {err}")
                continue
            try:
                a, b = tab(got), tab(want)
            except Exception as e:  # noqa
                res.fail("aggregation", f"{tag}: un-normalisable result {type(got).__name__}")
                continue
            if m == "size":
                a = {"_": next(iter(a.values()))}
                b = {"_": next(iter(b.values()))}
            if isinstance(want, pd.Series) != isinstance(got, pd.Series) and m != "size":
                res.fail("shape", f"{tag}: facade returns {type(got).__name__}, pandas {type(want).__name__}")
                continue
            bad = cmp_tab(a, b)
            if bad:
                res.fail("aggregation", f"{tag}: {bad}")

    def _cumulative(self, res, tag0, fast, pdg, frame, kcol, valcols):
        n = len(frame)
        haskey = [not (k is None or (isinstance(k, float) and k != k)) for k in kcol.tolist()]
        for m in CUMS:
            res.execs += 1
            want, perr = self._run(lambda: getattr(pdg(), m)())
            got, err = self._run(lambda: getattr(fast(), m)())
            tag = f"{m} {tag0}"
            if perr:
                continue
            if err:
                res.fail("total", f"{tag}: raised {err}")
                continue
            if m == "cumcount":
                g = np.asarray(got).ravel().tolist() if not isinstance(got, pd.DataFrame) else None
                wv = np.asarray(want).tolist()
                if g is None or len(g) != n:
                    res.fail("cumcount", f"{tag}: result shape {getattr(got, 'shape', None)}")
                    continue
                bad = [i for i in range(n) if haskey[i] and int(g[i]) != int(wv[i])]
                if bad:
                    res.fail("cumcount", f"{tag}: row {bad[0]}: {g[bad[0]]} vs pandas {wv[bad[0]]}")
                if list(got.index) != list(frame.index):
                    res.fail("index", f"{tag}: result index {list(got.index)}")
                continue
            gf = got.to_frame(name="x") if isinstance(got, pd.Series) else got
            wf = want.to_frame(name="x") if isinstance(want, pd.Series) else want
            if [str(c) for c in gf.columns] != [str(c) for c in wf.columns]:
                res.fail("selection", f"{tag}: columns {list(gf.columns)} vs pandas {list(wf.columns)}")
                continue
            if list(gf.index) != list(frame.index):
                res.fail("index", f"{tag}: result index {list(gf.index)}")
                continue
            for c in gf.columns:
                if isinstance(frame, pd.Series):
                    src = frame
                else:
                    src = frame[c] if c in frame.columns else None
                a = gbh.norm_values(gf[c])[0]
                b = gbh.norm_values(wf[c])[0]
                for i in range(n):
                    if not haskey[i]:
                        continue
                    if src is not None and pd.isna(src.iloc[i]):
                        continue  # only rows holding a value are constrained
                    if not gbh.veq(a[i], b[i], 1e-9):
                        res.fail("cumulative", f"{tag}: [{c}] row {i}: {a[i]} vs pandas {b[i]}")
                        break

    def _rolling(self, res, tag0, fast, frame, kcol, valcols, pkw, sel):
        n = len(frame)
        haskey = [not (k is None or (isinstance(k, float) and k != k)) for k in kcol.tolist()]
        # pandas side on a positional index so that its (label, index) output can be re-aligned
        pf = frame.reset_index(drop=True) if "level" not in pkw() else None
        # (window, min_periods as given to the facade, effective minimum): None means 'window';
        # 0 is legal too (at a row holding a value it cannot differ from 1)
        for w, mp, eff in ((2, 1, 1), (2, None, 2), (2, 0, 1), (3, 2, 2)):
          for m in ROLLS:
            if mp == 0 and m == "mean":
                continue  # the core engine does not define the mean of an empty window
            res.execs += 1
            if mp is None:
                got, err = self._run(lambda: getattr(fast().rolling(w), m)())
            else:
                got, err = self._run(lambda: getattr(fast().rolling(w, mp), m)())
            tag = f"rolling({w},{mp}).{m} {tag0}"
            if err:
                res.fail("total", f"{tag}: raised {err}")
                continue
            gf = got.to_frame(name="x") if isinstance(got, pd.Series) else got
            if [str(c) for c in gf.columns] != [str(c) for c in valcols]:
                res.fail("selection", f"{tag}: columns {list(gf.columns)} expected {valcols}")
                continue
            if list(gf.index) != list(frame.index):
                res.fail("index", f"{tag}: result index {list(gf.index)}")
                continue
            # reference: pandas rolling per group, computed directly
            for c in valcols:
                col = frame[c].to_numpy(dtype="f8")
                a = gbh.norm_values(gf[c])[0]
                for lab in set(k for k, h in zip(kcol.tolist(), haskey) if h):
                    pos = [i for i in range(n) if haskey[i] and kcol[i] == lab]
                    ref = getattr(pd.Series(col[pos]).rolling(w, min_periods=eff), m)().tolist()
                    for i, r in zip(pos, ref):
                        if col[i] != col[i]:
                            continue
                        r = None if r != r else r
                        if not gbh.veq(a[i], r, 1e-9):
                            res.fail("rolling", f"{tag}: [{c}] row {i}: {a[i]} vs pandas {r}")
                            return

    def _core_only(self, res, tag0, fast, frame, kcol, valcols, GroupBy):
        """median / quantile / ema: the facade must return what the core engine returns for the
        selected value columns"""
        vals = frame[valcols[0]] if len(valcols) == 1 else frame[valcols]
        for m, ff, cf in (("agg('sum')", lambda g: g.agg("sum"), lambda g: g.sum(vals)),
                          ("agg(np.max)", lambda g: g.agg(np.max), lambda g: g.apply(vals, np.max)),
                          ("apply(np.min)", lambda g: g.apply(np.min), lambda g: g.apply(vals, np.min)),
                          ("median", lambda g: g.median(), lambda g: g.median(vals)),
                          ("quantile", lambda g: g.quantile([0.5]), lambda g: g.quantile(vals, q=[0.5])),
                          ("ema", lambda g: g.ema(alpha=0.5), lambda g: g.ema(vals, alpha=0.5)),
                          # row selection: whatever the core engine does for the same call (today it
                          # raises for the default keep_input_index=False, see F-C18-row-selection-...)
                          ("head(1)", lambda g: g.head(1), lambda g: g.head(vals, 1)),
                          ("tail(2)", lambda g: g.tail(2), lambda g: g.tail(vals, 2)),
                          ("nth(0)", lambda g: g.nth(0), lambda g: g.nth(vals, 0))):
            res.execs += 1
            got, err = self._run(lambda: ff(fast()))
            want, cerr = self._run(lambda: cf(GroupBy(kcol.copy())))
            tag = f"{m} {tag0}"
            if cerr:
                if m[:4] in ("head", "tail", "nth(") and not err:
                    res.fail("core", f"{tag}: the facade returns although the core engine raises {cerr}")
                continue
            if err:
                res.fail("total", f"{tag}: raised {err} (the core engine returns)")
                continue
            try:
                a, b = tab(got), tab(want)
            except Exception:  # noqa
                res.fail("core", f"{tag}: un-normalisable result")
                continue
            if len(a) == 1 and len(b) == 1:
                a, b = {"_": next(iter(a.values()))}, {"_": next(iter(b.values()))}
            bad = cmp_tab(a, b, 1e-12)
            if bad:
                res.fail("core", f"{tag}: {bad.replace('pandas', 'core engine')}")

    def _iteration(self, res, tag0, obj, fkw, kcol):
        res.execs += 1
        n = len(obj)
        haskey = [not (k is None or (isinstance(k, float) and k != k)) for k in kcol.tolist()]
        exp = {}
        for i in range(n):
            if haskey[i]:
                exp.setdefault(kcol[i], []).append(i)
        out, err = self._run(lambda: [(k, sub) for k, sub in obj.groupby_fast(**fkw())])
        tag = f"iteration {tag0}"
        if err:
            res.fail("iteration", f"{tag}: raised {err}")
            return
        labs = [k for k, _ in out]
        if sorted(map(str, labs)) != sorted(map(str, exp)):
            res.fail("iteration", f"{tag}: labels {labs} expected {sorted(exp)}")
            return
        for k, sub in out:
            want = obj.iloc[exp[k]]
            same = (list(sub.index) == list(want.index)) and \
                np.array_equal(np.asarray(sub, dtype=object), np.asarray(want, dtype=object)) or \
                (list(sub.index) == list(want.index) and sub.equals(want))
            if not same:
                res.fail("iteration", f"{tag}: group {k}: rows {list(sub.index)} expected {list(want.index)}")
                return
        g, err = self._run(lambda: obj.groupby_fast(**fkw()).ngroups)
        if err or g != len(exp):
            res.fail("iteration", f"{tag}: ngroups {g if not err else err} expected {len(exp)}")


ROW_INDEXES = {
    "range": lambda n: pd.RangeIndex(n, name="i"),
    "range_rev": lambda n: pd.RangeIndex(n - 1, -1, -1, name="i"),          # sort_index(ascending=False)
    "range_step": lambda n: pd.RangeIndex(0, 3 * n, 3, name="i"),           # df.iloc[::3]
    "range_negstep": lambda n: pd.RangeIndex(10, 10 - 2 * n, -2, name="i"),  # df.iloc[::-2]
    "shuffled": lambda n: pd.Index([7, 3, 9, 1, 5][:n], dtype="int64", name="i"),
    "duplicates": lambda n: pd.Index([2, 2, 1, 1, 2][:n], dtype="int64", name="i"),
    "strings": lambda n: pd.Index(list("qwert")[:n], name="i"),
}


class IndexKeySpace(FacadeSpace):
    """the frame's own row index (or a mixture of a column and the index) as the group key"""
    shard = 6

    def __init__(self, name, lo, hi, indexes=tuple(ROW_INDEXES), seed=0, light=False):
        FacadeSpace.__init__(self, name, lo, hi, "str", indexes=indexes, seed=seed, light=light)

    def run(self, case):
        res = Result()
        _installed()
        w = case["w"]
        n = len(w)
        res.nontrivial = n >= 2
        seed = case["seed"]
        klabs = ("b", "a")
        kcol = np.array([None if k < 0 else klabs[k] for k, _ in w], dtype=object)
        X, _ = C.make_values([x for _, x in w], "f8", seed)
        Y = np.array(C.u_table("i8", seed + 1)[:n], dtype="i8")
        seams = env.seams()
        seams.set(executor=sched.NAMESPACE)
        sched.set_schedule(sched.Schedule())
        warnings.simplefilter("ignore")
        for ixname in case["indexes"]:
            idx = ROW_INDEXES[ixname](n)
            df = pd.DataFrame({"k": kcol, "x": X, "y": Y}, index=idx)
            num = df[["x", "y"]]
            ikey = np.asarray(idx, dtype=object)
            specs = [("level0", dict(level=0), num, ikey), ("level-name", dict(level="i"), num, ikey),
                     ("by-index-name", dict(by="i"), num, ikey),
                     ("by-col+index", dict(by=["k", "i"]), df, None)]
            light = case.get("light")
            if light:
                specs = [specs[0], specs[3]]
            for ksname, kw, frame, key in specs:
                for selname, sel in (("none", lambda g: g), ("item", lambda g: g["x"]))[:1 if light else 2]:
                    tag0 = f"rowindex={ixname} key={ksname} sel={selname}"
                    fast = lambda: sel(frame.groupby_fast(**kw))  # noqa
                    pdg = lambda: sel(frame.groupby(**kw))  # noqa
                    self._aggregations(res, tag0, fast, pdg)
                    if key is not None:
                        self._cumulative(res, tag0, fast, pdg, frame, key, ["x"])
                if key is not None:
                    self._iteration(res, f"rowindex={ixname} key={ksname}", frame, lambda: dict(kw), key)
            s = df["x"]
            # (a Series facade documents `by` as array-like only: the index is reached with level=)
            for ksname, kw in (("level0", dict(level=0)), ("level-name", dict(level="i"))):
                tag0 = f"Series rowindex={ixname} key={ksname}"
                self._aggregations(res, tag0, lambda: s.groupby_fast(**kw), lambda: s.groupby(**kw))
        seams.reset()
        return res


def subspaces(tier, seed):
    q = tier == "quick"
    sp = []
    if q:
        sp.append(FacadeSpace("strkey-n1to2-shuffled", 1, 2, "str", indexes=("shuffled",), seed=seed))
        sp.append(FacadeSpace("strkey-n1to2-default-light", 1, 2, "str", indexes=("default", "strings"),
                              light=True, seed=seed))
        sp.append(FacadeSpace("strkey-n3-light", 3, 3, "str", indexes=("duplicates",),
                              light=True, seed=seed))
        sp.append(FacadeSpace("intkey-n2to3-light", 2, 3, "int", indexes=("strings",), light=True,
                              seed=seed))
        sp.append(IndexKeySpace("rowindex-as-key-n1to2", 1, 2, seed=seed))
        sp.append(IndexKeySpace("rowindex-as-key-n3-light", 3, 3, indexes=("range_rev", "range_negstep", "duplicates"),
                                light=True, seed=seed))
    else:
        sp.append(IndexKeySpace("rowindex-as-key-n1to3", 1, 3, seed=seed))
        sp.append(IndexKeySpace("rowindex-as-key-n4-light", 4, 4, light=True, seed=seed))
        sp.append(FacadeSpace("strkey-n1to3", 1, 3, "str", seed=seed))
        sp.append(FacadeSpace("strkey-n4-light", 4, 4, "str", indexes=("default", "shuffled", "duplicates"),
                              light=True, seed=seed))
        sp.append(FacadeSpace("intkey-n1to3", 1, 3, "int", seed=seed))
        sp.append(FacadeSpace("floatkey-n1to3-light", 1, 3, "float", indexes=("default", "shuffled"),
                              light=True, seed=seed))
    return sp
