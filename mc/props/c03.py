"""C03 - results do not depend on the execution strategy (threads, completion order, chunking)."""
from __future__ import annotations

import numpy as np
import pandas as pd

from .. import concrete as C
from .. import gbh
from .. import ops as O
from .. import sched
from .. import words as W
from ..engine import Result, Subspace
from .. import env
from .c01 import row_alphabet

PROPERTY_ID = "C03"
TECHNIQUE = ("stateless model checking of the real implementation under a controlled thread-pool "
             "scheduler: deviation-bounded DFS over task completion orders x exhaustive enumeration "
             "of inputs and execution configurations (threads, chunk-wise factorisation fan-out, "
             "Arrow chunk layouts of keys and values); differential oracle against the "
             "single-threaded, unchunked, FIFO execution"
             '; task-footprint recorder for the independence premise of the partial-order reduction')
RULE = ("case = one word over rows (key incl. null, value null/non-null, mask bit); every case "
        "runs every operation under the baseline (T=1, whole factorisation, contiguous arrays, FIFO) "
        "and under every configuration x every schedule with <= D deviations from FIFO plus the "
        "all-reversed schedule; state = (input, configuration, schedule); outcome must equal the "
        "baseline normal form exactly; non-trivial = >= 2 rows and some configuration splits them")
ASSUMPTIONS = [
    'Arrow nullable-integer value chunks (every composition, plain / T=2 / chunk-wise keys) against the same integers as one contiguous Arrow array',
    'multi-key groupings (2 and 3 keys) under T = 2, 3 with D <= 1 / 2; chunk-wise uint8 values under masks; the first schedule of every exploration is replayed twice (determinism self-check)',
    "footprint sub-spaces: around every task body all array memory reachable from any task of the pool, finished tasks' results and the library's module-level state is compared element by element (write-write conflicts, writes into another task's result); quick: one configuration per kind of pool on A(2)^3, thorough: all configurations and operations",
    "tasks run to completion one at a time in the chosen order (completion order = execution "
    "order); interleavings inside numba kernels are not modelled (tasks write only arrays they "
    "allocate - C19 checks the caller's inputs; the 'footprint' sub-spaces compare, around every task "
    "body, all array memory reachable from the arguments/closures of every task of the pool, from "
    "finished tasks' results and from the library's module-level state, and report two tasks changing "
    "the same element or a task changing another task's result)",
    "n <= 3-4 rows (quick) / 5 (thorough); <= 3 Arrow chunks; T <= 4; fan-out <= 4; D <= 1 (quick) "
    "/ 2 (thorough)",
    "the 1,000,000-row switch-over is pulled down through core.THRESHOLD_FOR_CHUNKED_FACTORIZE, "
    "the same seam the repository's tests use; the untouched heuristics are exercised by the "
    "real-scale family of the thorough tier",
]


def _two(ctx):
    return [ctx.V, ctx.V2]


LOCAL = {
    # slice masks: chunks that lie entirely outside the slice are skipped (first_chunk_in offsets)
    "sum@slice1": ("reduce", lambda g, c: g.sum(c.V, mask=slice(1, None))),
    "first@slice2": ("reduce", lambda g, c: g.first(c.V, mask=slice(2, None))),
    "count@slice-2": ("reduce", lambda g, c: g.count(c.V, mask=slice(-2, None))),
    "size@slice1-3": ("reduce", lambda g, c: g.size(mask=slice(1, 3))),
    "sum_2col": ("reduce", lambda g, c: g.sum(_two(c), mask=c.M)),
    "first_2col": ("reduce", lambda g, c: g.first(_two(c), mask=c.M)),
    "last_2col_t": ("aligned", lambda g, c: g.last(_two(c), mask=c.M, transform=True)),
    "cumsum_2col": ("aligned", lambda g, c: g.cumsum(_two(c), mask=c.M)),
    "apply_sum_2col": ("reduce", lambda g, c: g.apply(_two(c), O._sum, mask=c.M)),
    "ema_2col": ("aligned", lambda g, c: g.ema(_two(c), alpha=0.5, mask=c.M)),
}
RED = ["size", "count", "sum", "mean", "min", "max", "first", "last", "var", "sum_t", "last_t",
       "sum_2col", "first_2col", "last_2col_t", "sum@nosort", "first@nosort",
       "sum@slice1", "first@slice2", "count@slice-2", "size@slice1-3"]
OTHER = ["cumsum", "cummax", "rolling_sum", "shift", "ema_alpha", "median", "apply_sum_2col",
         "cumsum_2col", "ema_2col", "head2", "groups", "count_t", "mean_t"]
ORDER_SENSITIVE = {"first", "last", "first_2col", "last_2col_t", "sum_2col", "min", "groups",
                   "apply_sum_2col", "cumsum_2col", "median"}


# one operation per distinct kind of task body (quick footprint sub-space; thorough runs them all)
FP_OPS = {"size", "sum", "mean", "first", "min", "var", "sum_t", "last_2col_t", "sum_2col",
          "sum@slice1", "cumsum", "rolling_sum", "ema_alpha", "ema_2col", "median", "apply_sum_2col",
          "head2", "groups", "sum@nosort"}


def op_fn(name):
    if name in LOCAL:
        return LOCAL[name][1]
    return O.OPS[name].fn


class StrategySpace(Subspace):
    shard = 8

    def __init__(self, name, G, lo, hi, mode="full", with_mask=True, bound=1, seed=0, vdtype="f8",
                 keykind="float", thorough=False, footprint=False):
        self.name = name
        self.thorough = thorough
        self.footprint = footprint
        self.mode, self.bound, self.seed = mode, bound, seed
        self.vdtype, self.keykind = vdtype, keykind
        self.kinds = tuple(keykind.split("+"))
        alpha = row_alphabet(G, len(self.kinds), [gbh.key_can_null(k) for k in self.kinds],
                             C.can_null(vdtype), with_mask)
        self.ws = W.WordSpace(alpha, lo, hi)
        self.warm_key = f"{mode}-{vdtype}"

    def size(self):
        return len(self.ws)

    def warm_indices(self, n):
        return (n // 3, n // 2, n - 1)

    def case(self, i):
        return dict(w=[[list(r[0])] + list(r[1:]) for r in self.ws.at(i)], mode=self.mode,
                    bound=self.bound, seed=self.seed, vdtype=self.vdtype, keykind=self.keykind,
                    thorough=self.thorough, footprint=self.footprint)

    # ---------------------------------------------------------------------------------
    def configs(self, n, mode, thorough=False):
        """(label, dict, operations, operations that get the deviation-bounded schedule DFS);
        every listed operation runs at least under FIFO and the all-reversed schedule.
        The baseline is not in the list."""
        out = []
        A6 = ["sum", "first", "min", "mean", "last_t", "sum_2col"]
        A3 = ["sum", "first", "last_t"]
        K16 = RED + ["cumsum", "shift"]
        ALL = RED + OTHER
        if mode in ("full", "threads"):
            for T in (2, 3, 4):
                out.append((f"T={T}", dict(T=T), RED,
                            ORDER_SENSITIVE if (thorough or T == 3) else ()))
        if mode in ("full", "chunkwise"):
            for F in (2, 3, 4):
                out.append((f"chunkwise fanout={F}", dict(threshold=1, fanout=F),
                            ALL if (thorough or F == 3) else RED + ["cumsum", "groups", "ema_alpha"],
                            ORDER_SENSITIVE if (thorough or F == 3) else ()))
        if mode in ("full", "arrow") and n >= 2:
            for comp in W.compositions(n, 3, 2):
                last = len(comp) == 3 or n == 2
                out.append((f"arrow key chunks={comp}", dict(kchunks=comp), ALL if thorough else K16,
                            ORDER_SENSITIVE if (thorough or last) else ()))
                out.append((f"arrow value chunks={comp} T=2", dict(vchunks=comp, T=2),
                            RED if thorough else A6, ()))
                out.append((f"arrow value chunks={comp} chunkwise", dict(vchunks=comp, threshold=1,
                                                                        fanout=2),
                            RED if thorough else A6, ()))
            # empty chunks (a filter leaves them behind): first, middle, last
            for comp in ((0, n), (1, 0, n - 1), (n, 0)):
                out.append((f"arrow key chunks={comp}", dict(kchunks=comp), K16, ()))
                out.append((f"arrow value chunks={comp} T=2", dict(vchunks=comp, T=2), A6, ()))
            if n <= 4:
                for kc in W.compositions(n, 3, 2):
                    for vc in W.compositions(n, 3, 2):
                        if kc != vc:
                            out.append((f"arrow key chunks={kc} value chunks={vc}",
                                        dict(kchunks=kc, vchunks=vc), A6 if thorough else A3, ()))
        if mode == "arrowint" and n >= 2:
            A7 = ["sum", "mean", "min", "max", "first", "last", "count", "sum_2col"]
            for comp in W.compositions(n, 3, 2):
                out.append((f"arrow int value chunks={comp}", dict(vchunks=comp), A7, ()))
                out.append((f"arrow int value chunks={comp} T=2", dict(vchunks=comp, T=2), A7, ()))
                out.append((f"arrow int value chunks={comp} chunkwise", dict(vchunks=comp, threshold=1, fanout=2),
                            A7, ()))
        if mode == "multikey":
            # several keys: one factorisation task per key (their results must stay in key order),
            # then the usual per-block tasks
            for T in (2, 3):
                out.append((f"T={T}", dict(T=T), RED + ["cumsum", "groups"], ORDER_SENSITIVE))
        if mode == "deep":
            out.append(("T=4", dict(T=4), ["sum", "first", "last_t", "min", "sum_2col"],
                        ("first", "sum_2col")))
            out.append(("chunkwise fanout=4", dict(threshold=1, fanout=4),
                        ["sum", "first", "last_t", "cumsum", "min", "groups", "first_2col"],
                        ("first", "first_2col")))
            out.append(("chunkwise fanout=2", dict(threshold=1, fanout=2),
                        ["sum", "first", "last_t", "cumsum", "ema_alpha"], ()))
        return out

    def run(self, case):
        import pyarrow as pa
        from groupby_lib import GroupBy

        res = Result()
        d = gbh.Data(case["w"], tuple(case.get("keykind", "float").split("+")), case.get("vdtype", "f8"),
                     case["seed"])
        n = d.n
        mref = list(d.ms) if d.ms is not None else None
        res.nontrivial = n >= 2
        seams = env.seams()
        arrow_int = case["mode"] == "arrowint"
        if arrow_int:
            # Arrow INTEGER values with Arrow nulls: whole numbers for every seed; a chunk without null
            # converts to int64, one with a null to float64/NaN - the chunks must be promoted together
            whole = np.array([np.nan if v != v else float(int(round(float(v) * 16))) for v in d.V.tolist()])
            d.V = whole
            d.V2 = np.where(np.isnan(whole), np.nan, np.abs(whole) + 1.0)
        ctx0 = d.ctx(mref)
        bound = case["bound"]
        vkind = d.V.dtype.kind
        baseline = {}
        states = 0
        fp_tasks = 0

        def chunked(arr, comp):
            cuts = np.cumsum(comp)[:-1]
            if arrow_int and np.asarray(arr).dtype.kind == "f":
                return pa.chunked_array(
                    [pa.array([None if x != x else int(x) for x in p.tolist()], type=pa.int64())
                     for p in np.split(np.asarray(arr), cuts)], type=pa.int64())
            return pa.chunked_array([pa.array(p) for p in np.split(np.asarray(arr), cuts)])

        if arrow_int:
            # baseline: the same Arrow integers as ONE contiguous array
            one = lambda a: pa.array([None if x != x else int(x) for x in np.asarray(a).tolist()], type=pa.int64())  # noqa
            ctx0 = O.Ctx(V=one(d.V), M=ctx0.M, V2=one(d.V2), T=ctx0.T, VS=ctx0.VS, n=n)

        def execute(name, cfg, ctx, keyarg):
            seams.set(executor=sched.NAMESPACE, threshold=cfg.get("threshold"),
                      fanout=cfg.get("fanout"), max_threads=cfg.get("T", 1))
            if name.endswith("@nosort"):
                # first-appearance label order must not depend on the strategy either
                return gbh.call(lambda: op_fn(name[:-7])(GroupBy(keyarg, sort=False), ctx))
            return gbh.call(lambda: op_fn(name)(GroupBy(keyarg), ctx))

        cfgs = self.configs(n, case["mode"], case.get("thorough", False))
        if case.get("footprint") and not case.get("thorough"):
            # quick footprint pass: one configuration per kind of pool (the thorough tier runs all)
            def keep(cfg):
                if "kchunks" in cfg and "vchunks" in cfg:
                    return False
                if "kchunks" in cfg:
                    return len(cfg["kchunks"]) == min(3, n) and 0 not in cfg["kchunks"]
                if "vchunks" in cfg:
                    return len(cfg["vchunks"]) == 2 and 0 not in cfg["vchunks"] and cfg["vchunks"][0] == 1
                return cfg.get("T") == 3 or cfg.get("fanout") == 3
            cfgs = [c for c in cfgs if keep(c[1])]
        for label, cfg, opnames, devops in cfgs:
            keyarg = d.keyarg
            ctx = ctx0
            if cfg.get("kchunks"):
                keyarg = chunked(d.keys[0], cfg["kchunks"])
            if cfg.get("vchunks"):
                if vkind not in "fiu":
                    continue
                ctx = O.Ctx(V=chunked(d.V, cfg["vchunks"]), M=ctx0.M,
                            V2=chunked(d.V2, cfg["vchunks"]), T=ctx0.T, VS=ctx0.VS, n=n)
            if case.get("footprint") and not case.get("thorough"):
                opnames = [o for o in opnames if o in FP_OPS]
            for name in opnames:
                bname = name[:-7] if name.endswith("@nosort") else name
                if bname in O.OPS and vkind not in O.OPS[bname].vkinds:
                    continue
                if name in O.OPS and mref is not None and "bool" not in O.OPS[name].masks:
                    if any(m == 0 for m in mref):
                        continue
                if cfg.get("vchunks") and name in ("var",):
                    pass
                if name not in baseline:
                    sched.set_schedule(sched.Schedule())
                    baseline[name] = execute(name, {}, ctx0, d.keyarg)
                    res.execs += 1
                base = baseline[name]
                bkey = base.key()

                def run_sched(s):
                    o = execute(name, cfg, ctx, keyarg)
                    return o.key(), o

                seen = {}

                def run_only_key(s):
                    k, o = run_sched(s)
                    seen.setdefault(k, o)
                    return k

                b = bound if name in devops else 0
                fpr = bool(case.get("footprint"))
                if fpr:
                    sched.FOOTPRINT.reset(True)
                try:
                    ex = sched.explore(run_only_key, b, max_schedules=400,
                                       selfcheck=(name == opnames[0] or b > 0) and not fpr)
                except sched.ReplayDivergence as e:
                    res.fail("determinism", f"{name} [{label}]: replay divergence {e}")
                    continue
                finally:
                    if fpr:
                        sched.FOOTPRINT.enabled = False
                if fpr:
                    fp_tasks += sched.FOOTPRINT.tasks_checked
                    for msg in sorted(set(sched.FOOTPRINT.conflicts))[:2]:
                        res.fail("independence", f"{name} [{label}]: {msg}")
                res.execs += ex["schedules"]
                states += ex["schedules"]
                if len(ex["outcomes"]) > 1:
                    res.outcomes = max(res.outcomes, len(ex["outcomes"]))
                    k2 = [k for k in ex["outcomes"] if k != bkey] or list(ex["outcomes"])
                    res.fail("schedule", f"{name} [{label}]: {len(ex['outcomes'])} distinct outcomes "
                                         f"over {ex['schedules']} schedules; schedule "
                                         f"{ex['outcomes'][k2[0]]}: "
                                         f"{gbh.same_mapping(seen[k2[0]], base, ordered=True) or 'differs in dtype/name'}")
                    continue
                k = next(iter(ex["outcomes"]))
                if k != bkey:
                    o = seen[k]
                    diff = gbh.same_mapping(o, base, ordered=True)
                    if diff is None:
                        if o.dtypes != base.dtypes:
                            diff = f"dtypes {o.dtypes} vs {base.dtypes}"
                        elif o.kind != base.kind or str(o.name) != str(base.name):
                            diff = f"shape/name {o.kind}/{o.name} vs {base.kind}/{base.name}"
                        elif o.names != base.names:
                            diff = f"index names {o.names} vs {base.names}"
                        elif o.container != base.container:
                            diff = f"container {o.container} vs {base.container}"
                        else:
                            diff = "normal forms differ"
                    res.fail("strategy", f"{name} [{label}]: {diff} (vs T=1/whole/contiguous/FIFO)")
        res.states = max(1, states)
        if case.get("footprint"):
            res.extra = {"footprint_task_bodies_checked": fp_tasks}
        sched.set_schedule(sched.Schedule())
        seams.reset()
        return res


class RealScaleSpace(Subspace):
    """The untouched heuristics: real 1,000,000-row thresholds, real thread pool, no seams.
    Every word is embedded into an array of length L; all other rows carry a null key (inert by
    C06) and a non-null value that would show up if it leaked.  Each word row is put into a chosen
    block of rows (all non-decreasing block assignments), so 'group absent from a block' occurs at
    the real switch-over points.  Compared with the same word un-embedded."""
    shard = 4

    def __init__(self, name, lo, hi, lengths, seed=0, cat=False):
        import itertools
        self.name, self.seed, self.cat = name, seed, cat
        alpha = row_alphabet(2, 1, [False], True, False)  # keys 0/1, value null / non-null
        self.ws = W.WordSpace(alpha, lo, hi)
        self.lengths = lengths
        self.warm_key = "realscale"

    def size(self):
        return len(self.ws) * len(self.lengths)

    def warm_indices(self, n):
        return (n - 1,)

    def case(self, i):
        wi, li = divmod(i, len(self.lengths))
        return dict(w=[[list(r[0])] + list(r[1:]) for r in self.ws.at(wi)], L=self.lengths[li],
                    seed=self.seed, cat=self.cat)

    def run(self, case):
        import itertools
        from groupby_lib import GroupBy

        res = Result()
        d = gbh.Data(case["w"], ("float",), "f8", case["seed"])
        n, L = d.n, case["L"]
        res.nontrivial = n >= 2
        seams = env.seams()
        seams.reset()  # real executor, real thresholds
        T = min(4, 1 + L // 1_000_000)
        nb = max(T, 4)
        bounds = np.linspace(0, L, nb + 1).astype(int)
        small_keys = np.asarray(d.keys[0])
        opsl = ["sum", "first", "last", "min", "max", "count", "size", "mean"]

        def run_ops(K, V):
            out = {}
            for name in opsl:
                op = O.OPS[name]
                out[name] = gbh.call(lambda: op.fn(GroupBy(K), O.Ctx(V=V, M=None, n=len(V))))
            return out

        if case.get("cat"):
            def mk_keys(arr):
                codes = np.where(np.isnan(arr), -1, np.searchsorted(np.array(sorted(set(
                    small_keys[~np.isnan(small_keys)].tolist()) or [0.0])), np.nan_to_num(arr))).astype("i8")
                cats = sorted(set(small_keys[~np.isnan(small_keys)].tolist())) or [0.0]
                return pd.Categorical.from_codes(codes, categories=cats)
        else:
            def mk_keys(arr):
                return arr
        base = run_ops(mk_keys(small_keys), d.V)
        res.execs += len(opsl)
        for blocks in itertools.combinations_with_replacement(range(nb), n):
            for side in ("front", "back"):
                K = np.full(L, np.nan)
                V = np.ones(L)
                cnt = {b: blocks.count(b) for b in set(blocks)}
                seen = {}
                for r, b in enumerate(blocks):
                    j = seen.get(b, 0)
                    seen[b] = j + 1
                    if side == "front":
                        pos = int(bounds[b]) + j
                    else:
                        pos = int(bounds[b + 1]) - cnt[b] + j
                    K[pos] = small_keys[r]
                    V[pos] = d.V[r]
                got = run_ops(mk_keys(K), V)
                res.execs += len(opsl)
                for name in opsl:
                    bad = gbh.same_mapping(got[name], base[name], ordered=True)
                    if bad:
                        res.fail("real-scale", f"{name} L={L} blocks={blocks} {side}: {bad} "
                                               f"(vs the same rows alone)")
        return res


def subspaces(tier, seed):
    q = tier == "quick"
    S = StrategySpace
    sp = []
    if q:
        sp.append(S("full-A2-n1to3", 2, 1, 3, mode="full", bound=1, seed=seed))
        sp.append(S("deep-A0_2-n4", 2, 4, 4, mode="deep", with_mask=False, bound=1, seed=seed))
        sp.append(S("chunkwise-i8-A2-n1to3", 2, 1, 3, mode="chunkwise", vdtype="i8", bound=0, seed=seed))
        sp.append(S("chunkwise-M8-A0_2-n1to3", 2, 1, 3, mode="chunkwise", vdtype="M8[ns]",
                    with_mask=False, bound=0, seed=seed))
        # a chunk whose rows of a group are all rejected by the mask: empty partial of a dtype without null
        sp.append(S("chunkwise-u1-A2-n2to3", 2, 2, 3, mode="chunkwise", vdtype="u1", bound=0, seed=seed))
        sp.append(S("arrowint-values-A0_2-n2to3", 2, 2, 3, mode="arrowint", with_mask=False, bound=0, seed=seed))
        sp.append(S("multikey-float+str-A0_2-n2", 2, 2, 2, mode="multikey", keykind="float+str_obj",
                    with_mask=False, bound=1, seed=seed))
        # narrow integer / bool values under several threads (their 'no value' filler is not a null)
        for vd in ("i4", "u1", "b"):
            sp.append(S(f"threads-{vd}-A0_2-n2to3", 2, 2, 3, mode="threads", vdtype=vd, with_mask=False,
                        bound=0, seed=seed))
        sp.append(S("footprint-A2-n3", 2, 3, 3, mode="full", bound=0, seed=seed, footprint=True))
        sp.append(S("footprint-u1-A0_2-n3", 2, 3, 3, mode="threads", vdtype="u1", with_mask=False,
                    bound=0, seed=seed, footprint=True))
    else:
        sp.append(S("footprint-A2-n2to3-allops", 2, 2, 3, mode="full", bound=0, thorough=True, seed=seed,
                    footprint=True))
        for vd in ("i8", "M8[ns]", "u1"):
            sp.append(S(f"footprint-{vd}-A0_2-n2to3", 2, 2, 3, mode="full", vdtype=vd, with_mask=False,
                        bound=0, seed=seed, footprint=True))
        sp.append(S("full-A2-n1to3-D2-allops", 2, 1, 3, mode="full", bound=2, thorough=True, seed=seed))
        sp.append(S("full-A2-n4", 2, 4, 4, mode="full", bound=1, seed=seed))
        sp.append(S("full-A3-n3", 3, 3, 3, mode="full", bound=1, seed=seed))
        sp.append(S("deep-A0_2-n5-D2", 2, 5, 5, mode="deep", with_mask=False, bound=2, seed=seed))
        sp.append(S("deep-A2-n4", 2, 4, 4, mode="deep", bound=1, seed=seed))
        for vd in ("i8", "M8[ns]", "f4", "m8[ns]", "b"):
            sp.append(S(f"chunkwise-{vd}-A2-n1to3", 2, 1, 3, mode="chunkwise", vdtype=vd, bound=1,
                        seed=seed))
            sp.append(S(f"threads-{vd}-A2-n1to4", 2, 1, 4, mode="threads", vdtype=vd, bound=1,
                        seed=seed))
        sp.append(S("chunkwise-strkeys-A2-n1to3", 2, 1, 3, mode="chunkwise", keykind="str_obj",
                    bound=1, seed=seed))
        sp.append(S("arrowint-values-A2-n2to4", 2, 2, 4, mode="arrowint", bound=1, seed=seed))
        sp.append(S("multikey-float+str-A0_2-n2to3", 2, 2, 3, mode="multikey", keykind="float+str_obj",
                    with_mask=False, bound=2, seed=seed))
        sp.append(S("multikey-float+str-A2-n2", 2, 2, 2, mode="multikey", keykind="float+str_obj",
                    bound=2, seed=seed))
        sp.append(S("multikey-int+float+str-A0_2-n2", 2, 2, 2, mode="multikey", keykind="int+float+str_obj",
                    with_mask=False, bound=2, seed=seed))
        sp.append(RealScaleSpace("real-scale-float-n1to3", 1, 3,
                                 (999_999, 1_000_000, 1_000_001, 2_000_000, 3_000_000), seed=seed))
        sp.append(RealScaleSpace("real-scale-categorical-n2to3", 2, 3, (1_000_000, 4_000_000),
                                 seed=seed, cat=True))
    return sp
