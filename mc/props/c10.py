"""C10 - EMA is the normalised exponentially weighted mean, per group."""
from __future__ import annotations

import io
import contextlib
import itertools

import numpy as np
import pandas as pd

from .. import concrete as C
from .. import gbh
from .. import refmodel as R
from .. import sched
from .. import words as W
from ..engine import Result, Subspace
from .. import env
from .c01 import row_alphabet

PROPERTY_ID = "C10"
TECHNIQUE = ("bounded exhaustive enumeration of row words (group interleavings, null/mask "
             "placements incl. leading nulls) x decay settings x timestamp layouts x dtypes x entry "
             "points, on the real EMA kernels against the closed-form weighted mean; relational "
             "facets halflife==alpha, grouped==ungrouped, group independence")
RULE = ("untimed case = one word over rows (key incl. null, value null/non-null, mask bit) run for "
        "alpha in {.25,.5,1}, halflife in {.5,1,1.5,2.5} through ema_grouped, GroupBy.ema (both "
        "layouts) and the class-level form; timed case = word x every gap sequence over {1,2,5} (and over {0,1,3}: tied timestamps) x "
        "halflife x time unit x origin (before/at/after the epoch); ungrouped case = null pattern of "
        "one series; non-trivial = a group with >= 2 valid rows or an invalid row after a valid one")
ASSUMPTIONS = [
    'tied timestamps (gap 0) between rows of different groups and of one group (panel data): every gap sequence over {0,1,3}, n <= 4 (quick) / 5 (thorough)',
    "n <= 4 rows (quick) / 5 (thorough), G <= 2-3 groups",
    "relative tolerance 1e-12 (1e-6 for float32 input) - the statement speaks of a weighted mean "
    "of floats, not of a particular summation order",
    "rows before a group's first valid observation: grouped output must be null, ungrouped output "
    "is unconstrained",
]

ALPHAS = (0.25, 0.5, 1.0)
HALFLIVES = (0.5, 1.0, 1.5, 2.5)


def close(a, b, rtol):
    if a is None or b is None:
        return a is None and b is None
    return abs(a - b) <= rtol * max(1.0, abs(a), abs(b))


def check_series(res, tag, exp, obs, rows, rtol, facet="values"):
    if len(obs) != len(exp):
        res.fail(facet, f"{tag}: {len(obs)} values for {len(exp)} rows")
        return False
    for i in rows:
        if not close(exp[i], obs[i], rtol):
            res.fail(facet, f"{tag}: row {i}: expected {exp[i]} got {obs[i]}")
            return False
    return True


class UntimedSpace(Subspace):
    shard = 60

    def __init__(self, name, G, lo, hi, vdtype="f8", rep="contig", seed=0):
        self.name, self.vdtype, self.rep, self.seed = name, vdtype, rep, seed
        alpha = row_alphabet(G, 1, [True], C.can_null(vdtype), True)
        self.ws = W.WordSpace(alpha, lo, hi)
        self.warm_key = f"untimed-{vdtype}"

    def size(self):
        return len(self.ws)

    def case(self, i):
        return dict(w=[[list(r[0])] + list(r[1:]) for r in self.ws.at(i)], vdtype=self.vdtype,
                    rep=self.rep, seed=self.seed)

    def run(self, case):
        from groupby_lib import GroupBy
        from groupby_lib.emas import ema_grouped, ema

        res = Result()
        d = gbh.Data(case["w"], ("float",), case["vdtype"], case["seed"])
        n = d.n
        ks = [-1 if g is None else g for g in d.gids]
        ms = list(d.ms)
        rtol = 1e-6 if d.V.dtype == np.float32 else 1e-12
        grouped_rows = [i for i in range(n) if ks[i] >= 0]
        valid_seen = {}
        for i in range(n):
            if ks[i] >= 0:
                if valid_seen.get(ks[i]):
                    res.nontrivial = True
                if d.xs[i] and ms[i]:
                    valid_seen[ks[i]] = True
        seams = env.seams()
        seams.set(executor=sched.NAMESPACE, threshold=1 if case["rep"] == "chunkwise" else None)
        sched.set_schedule(sched.Schedule())
        codes = np.array(ks, dtype=np.int64)
        M = np.array(ms, dtype=bool)
        # dense codes for ema_grouped (its contract: codes in [0, ngroups) or negative = null)
        for masked in ((False, True) if 0 in ms else (False,)):
            mref = ms if masked else None
            Mo = M if masked else None
            settings = [("alpha", a) for a in ALPHAS] + [("halflife", h) for h in HALFLIVES]
            per_alpha = {}
            for kind, val in settings:
                a = val if kind == "alpha" else 1.0 - 2.0 ** (-1.0 / val)
                exp = R.ema(ks, d.py, alpha=a, mask=mref)
                kw = {kind: val}
                tag0 = f"{kind}={val} mask={''.join(map(str, ms)) if masked else 'none'}"
                outs = {}
                for entry in ("ema_grouped", "GroupBy.ema", "GroupBy.ema-gsorted", "class-form"):
                    if entry == "class-form" and (masked or kind == "halflife"):
                        continue
                    if entry == "GroupBy.ema-gsorted" and val not in (0.5, 1.5):
                        continue
                    res.execs += 1
                    try:
                        with contextlib.redirect_stdout(io.StringIO()):
                            if entry == "ema_grouped":
                                out = ema_grouped(codes, 3, d.V, mask=Mo, **kw)
                                obs = gbh.norm_np(out)
                            elif entry == "GroupBy.ema":
                                out = GroupBy(d.keyarg).ema(d.V, mask=Mo, **kw)
                                obs = gbh.norm_values(out)[0]
                            elif entry == "class-form":
                                out = GroupBy.ema(d.keyarg, d.V, **kw)
                                obs = gbh.norm_values(out)[0]
                            else:
                                out = GroupBy(d.keyarg).ema(d.V, mask=Mo, index_by_groups=True, **kw)
                                o = gbh.normalise(out)
                                vals = next(iter(o.values.values()))
                                obs = [None] * n
                                for lab, v in zip(o.labels, vals):
                                    obs[lab[-1]] = v
                                want_order = [(d.label_of(g), i) for g in sorted({k for k in ks if k >= 0}, key=d.label_of)
                                              for i in range(n) if ks[i] == g]
                                if o.labels != want_order:
                                    res.fail("layout", f"{tag0} [{entry}]: index {o.labels} expected {want_order}")
                    except Exception as e:  # noqa
                        res.fail("total", f"{tag0} [{entry}]: raised {type(e).__name__}: {str(e)[:120]}")
                        continue
                    outs[entry] = obs
                    check_series(res, f"{tag0} [{entry}]", exp, obs, grouped_rows, rtol)
                if kind == "alpha":
                    per_alpha[val] = outs.get("GroupBy.ema")
                # halflife h == alpha = 1 - 2^(-1/h): compare two library executions
                if kind == "halflife" and "GroupBy.ema" in outs:
                    res.execs += 1
                    try:
                        with contextlib.redirect_stdout(io.StringIO()):
                            o2 = gbh.norm_values(GroupBy(d.keyarg).ema(d.V, mask=Mo, alpha=a))[0]
                        check_series(res, f"{tag0} vs alpha={a:.6f}", o2, outs["GroupBy.ema"],
                                     grouped_rows, rtol, facet="halflife-alpha")
                    except Exception as e:  # noqa
                        res.fail("total", f"alpha={a}: raised {type(e).__name__}: {str(e)[:100]}")
            # group independence + grouped == ungrouped: every group's outputs equal the ungrouped
            # EMA of the group's own subsequence from its first valid row on
            if not masked and 0.5 in per_alpha and per_alpha[0.5] is not None:
                for g in sorted({k for k in ks if k >= 0}):
                    idx = [i for i in range(n) if ks[i] == g]
                    sub = d.V[idx]
                    res.execs += 1
                    try:
                        ung = gbh.norm_np(ema(sub.astype("f8") if sub.dtype.kind != "f" else sub, alpha=0.5))
                    except Exception as e:  # noqa
                        res.fail("total", f"ema(ungrouped) raised {type(e).__name__}: {str(e)[:100]}")
                        continue
                    first = next((j for j, i in enumerate(idx) if d.xs[i]), None)
                    if first is None:
                        continue
                    for j in range(first, len(idx)):
                        if not close(ung[j], per_alpha[0.5][idx[j]], rtol):
                            res.fail("grouped-vs-ungrouped",
                                     f"alpha=0.5 group {g}: row {idx[j]} grouped {per_alpha[0.5][idx[j]]} "
                                     f"ungrouped {ung[j]}")
                            break
        seams.reset()
        return res


class TimedSpace(Subspace):
    shard = 20

    def __init__(self, name, G, lo, hi, units=("ns", "us", "ms", "s"), origins=(-10, 0, 1_600_000_000),
                 vdtype="f8", seed=0, gaps=(1, 2, 5), with_mask=True, nhl=3):
        self.name, self.units, self.origins, self.vdtype, self.seed = name, units, origins, vdtype, seed
        self.gaps, self.nhl = gaps, nhl
        alpha = row_alphabet(G, 1, [True], C.can_null(vdtype), with_mask)
        self.ws = W.WordSpace(alpha, lo, hi)
        self.warm_key = f"timed-{vdtype}"

    def size(self):
        return len(self.ws)

    def case(self, i):
        return dict(w=[[list(r[0])] + list(r[1:]) for r in self.ws.at(i)], units=list(self.units),
                    origins=list(self.origins), vdtype=self.vdtype, seed=self.seed,
                    gaps=list(self.gaps), nhl=self.nhl)

    def run(self, case):
        from groupby_lib import GroupBy
        from groupby_lib.emas import ema_grouped, ema

        res = Result()
        d = gbh.Data(case["w"], ("float",), case["vdtype"], case["seed"])
        n = d.n
        ks = [-1 if g is None else g for g in d.gids]
        ms = list(d.ms) if d.ms is not None else [1] * n
        rtol = 1e-6 if d.V.dtype == np.float32 else 1e-11
        grouped_rows = [i for i in range(n) if ks[i] >= 0]
        res.nontrivial = n >= 2
        codes = np.array(ks, dtype=np.int64)
        M = np.array(ms, dtype=bool)
        seams = env.seams()
        seams.set(executor=sched.NAMESPACE)
        sched.set_schedule(sched.Schedule())
        MULT = {"ns": 10**9, "us": 10**6, "ms": 10**3, "s": 1}
        halflives = [(pd.Timedelta(milliseconds=1500), 1.5), ("1s", 1.0), ("2500ms", 2.5)][:case.get("nhl", 3)]
        for gaps in itertools.product(tuple(case.get("gaps") or (1, 2, 5)), repeat=max(0, n - 1)):
            for origin in case["origins"]:
                secs = [origin]
                for g_ in gaps:
                    secs.append(secs[-1] + g_)
                for unit in case["units"]:
                    T = np.array([s * MULT[unit] for s in secs], dtype="i8").view(f"M8[{unit}]")
                    for hl, hsecs in halflives:
                        for masked in ((False, True) if 0 in ms else (False,)):
                            mref = ms if masked else None
                            exp = R.ema(ks, d.py, halflife=hsecs, times=secs, mask=mref)
                            tag = (f"halflife={hl} unit={unit} origin={origin} gaps={list(gaps)} "
                                   f"mask={''.join(map(str, ms)) if masked else 'none'}")
                            for entry in ("ema_grouped", "GroupBy.ema", "GroupBy.ema(DatetimeIndex)",
                                          "GroupBy.ema(labelled)", "GroupBy.ema(labelled,gsorted)"):
                                if entry != "GroupBy.ema" and (unit not in ("ns", "us") or hsecs != 1.5):
                                    continue
                                if "labelled" in entry and (unit != "ns" or origin != 0):
                                    continue
                                res.execs += 1
                                try:
                                    with contextlib.redirect_stdout(io.StringIO()):
                                        if entry == "ema_grouped":
                                            out = ema_grouped(codes, 3, d.V, halflife=hl, times=T,
                                                              mask=M if masked else None)
                                            obs = gbh.norm_np(out)
                                        elif "labelled" in entry:
                                            # every argument is a Series under the same integer labels in
                                            # another order than the positions (label = n-1-position)
                                            lab = pd.Index(list(range(n))[::-1])
                                            S_ = lambda a: pd.Series(np.asarray(a), index=lab)  # noqa
                                            out = GroupBy(S_(d.keyarg)).ema(
                                                S_(d.V), halflife=hl, times=S_(T), mask=S_(M) if masked else None,
                                                index_by_groups="gsorted" in entry)
                                            got_lab = [l if not isinstance(l, tuple) else l[-1]
                                                       for l in gbh.norm_labels(out.index)]
                                            vals_ = gbh.norm_values(out)[0]
                                            if sorted(got_lab) != list(range(n)) and "gsorted" not in entry:
                                                res.fail("layout", f"{tag} [{entry}]: index {got_lab}")
                                                continue
                                            obs = [None] * n
                                            for l, v in zip(got_lab, vals_):
                                                obs[n - 1 - l] = v
                                        else:
                                            Tg = T if entry == "GroupBy.ema" else pd.DatetimeIndex(T)
                                            out = GroupBy(d.keyarg).ema(d.V, halflife=hl, times=Tg,
                                                                        mask=M if masked else None)
                                            obs = gbh.norm_values(out)[0]
                                except Exception as e:  # noqa
                                    res.fail("total", f"{tag} [{entry}]: raised {type(e).__name__}: {str(e)[:100]}")
                                    continue
                                check_series(res, f"{tag} [{entry}]", exp, obs, grouped_rows, rtol)
        seams.reset()
        return res


class UngroupedSpace(Subspace):
    """ungrouped ema(): null patterns of one series; closed form from the first valid row on"""
    shard = 20

    def __init__(self, name, lo, hi, seed=0):
        self.name, self.seed = name, seed
        self.ws = W.WordSpace([0, 1], lo, hi)

    def size(self):
        return len(self.ws)

    def case(self, i):
        return dict(xs=self.ws.at(i), seed=self.seed)

    def run(self, case):
        from groupby_lib.emas import ema

        res = Result()
        xs = case["xs"]
        n = len(xs)
        first = next((i for i, x in enumerate(xs) if x), None)
        res.nontrivial = n >= 2
        if first is None:
            return res
        rows = list(range(first, n))
        MULT = {"ns": 10**9, "us": 10**6, "s": 1}
        for dt in ("f8", "f4", "i8", "i4"):
            if not C.can_null(dt) and 0 in xs:
                continue
            V, py = C.make_values(xs, dt, case["seed"])
            rtol = 1e-6 if dt == "f4" else 1e-12
            for kind, val in [("alpha", a) for a in ALPHAS] + [("halflife", h) for h in HALFLIVES]:
                a = val if kind == "alpha" else 1.0 - 2.0 ** (-1.0 / val)
                exp = R.ema([0] * n, py, alpha=a)
                for cont in ("ndarray", "Series"):
                    res.execs += 1
                    try:
                        out = ema(V if cont == "ndarray" else pd.Series(V, index=list("abcdefg")[:n]),
                                  **{kind: val})
                        obs = gbh.norm_values(out)[0]
                        if cont == "Series" and list(out.index) != list("abcdefg")[:n]:
                            res.fail("index", f"ema({cont}) index {list(out.index)}")
                    except Exception as e:  # noqa
                        res.fail("total", f"ema {kind}={val} {dt} {cont}: raised {type(e).__name__}: {str(e)[:100]}")
                        continue
                    check_series(res, f"ema {kind}={val} {dt} {cont}", exp, obs, rows, rtol)
            if dt in ("f8", "i8"):
                for gaps in itertools.product((1, 3), repeat=max(0, n - 1)):
                    secs = [5]
                    for g_ in gaps:
                        secs.append(secs[-1] + g_)
                    for unit in ("ns", "us", "s"):
                        T = np.array([s * MULT[unit] for s in secs], dtype="i8").view(f"M8[{unit}]")
                        exp = R.ema([0] * n, py, halflife=2.0, times=secs)
                        res.execs += 1
                        try:
                            obs = gbh.norm_values(ema(V, halflife="2s", times=T))[0]
                        except Exception as e:  # noqa
                            res.fail("total", f"ema timed {dt} unit={unit}: raised {type(e).__name__}: {str(e)[:100]}")
                            continue
                        check_series(res, f"ema timed halflife=2s {dt} unit={unit} gaps={list(gaps)}",
                                     exp, obs, rows, 1e-11)
        return res


def subspaces(tier, seed):
    q = tier == "quick"
    sp = []
    if q:
        sp += [UntimedSpace("untimed-f8-A2-n1to4", 2, 1, 4, seed=seed),
               UntimedSpace("untimed-f8-A3-n3", 3, 3, 3, seed=seed)]
    else:
        sp += [UntimedSpace("untimed-f8-A2-n1to5", 2, 1, 5, seed=seed),
               UntimedSpace("untimed-f8-A3-n1to4", 3, 1, 4, seed=seed)]
    h = 3 if q else 4
    for vd in ("f4", "i8", "i4"):
        sp.append(UntimedSpace(f"untimed-{vd}-n1to{h}", 2, 1, h, vdtype=vd, seed=seed))
    sp.append(UntimedSpace(f"untimed-f8-chunkwise-n1to{h}", 2, 1, h, rep="chunkwise", seed=seed))
    sp.append(TimedSpace("timed-f8-A2-n1to3", 2, 1, 3, seed=seed))
    if not q:
        sp.append(TimedSpace("timed-f8-A2-n4", 2, 4, 4, units=("ns", "us"), seed=seed))
    # ties: rows of different groups (and of one group) sharing a timestamp - panel data
    sp.append(TimedSpace(f"timed-ties-f8-A0_2-n2to{4 if q else 5}", 2, 2, 4 if q else 5, units=("ns",),
                         origins=(0,), gaps=(0, 1, 3), with_mask=False, nhl=1, seed=seed))
    sp.append(TimedSpace("timed-i8-n1to3", 2, 1, 3, units=("us", "s"), origins=(0, 1_600_000_000),
                         vdtype="i8", seed=seed))
    sp.append(UngroupedSpace(f"ungrouped-len1to{5 if q else 6}", 1, 5 if q else 6, seed=seed))
    return sp
