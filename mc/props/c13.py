"""C13 - a GroupBy object can be reused: explicit-state search over the reachable concrete states
of one real object until the state set closes; every transition is compared with a fresh object."""
from __future__ import annotations

import collections
import hashlib
import io
import contextlib

import numpy as np
import pandas as pd

from .. import gbh
from .. import ops as O
from .. import sched
from ..engine import Result, Subspace
from .. import env

PROPERTY_ID = "C13"
TECHNIQUE = ("explicit-state model checking on the real object: breadth-first search over the "
             "concrete states (digest of the whole __dict__) reachable through an alphabet of ~80 "
             "operations, run to fixpoint; differential oracle: every transition's result equals "
             "the same call on a freshly built grouping")
RULE = ("case = one seed (key array x key representation x sort); states = distinct digests of "
        "the object's complete attribute dictionary; transitions = (state, operation) pairs, each "
        "executed on an object rebuilt by replaying the shortest history to that state; the search "
        "stops when no operation leads to a new state (fixpoint = all finite histories covered) or "
        "at the state cap; non-trivial = seeds with > 1 reachable state")
ASSUMPTIONS = [
    'three seeds live under the all-reversed completion order while the fresh reference runs FIFO; masked cumcount is in the alphabet',
    'word seeds: every key word over {null,0,1,2} of length 2..3 (quick) / 2..4 (thorough) x chunk-wise fan-out x sort is the seed of its own search to fixpoint under a reduced alphabet (one mutator per class of successor state + observers); nine failing calls (misaligned values / mask, failing user function) belong to the alphabet',
    "operations are deterministic functions of (object state, arguments) - then closing the "
    "state set covers every finite history over the alphabet",
    "one fixed values array, boolean mask, slice and position list per seed (other arguments: "
    "fixed small constants)",
    "thread pool replaced by the controlled executor (FIFO)",
    "state cap per seed: 300 (quick) / 3000 (thorough); evidence reports whether every seed closed",
]


# --------------------------------------------------------------------------- state digest
def dig(x):
    import pyarrow as pa

    if isinstance(x, np.ndarray):
        if x.dtype.kind == "O":
            return ("ndo", x.shape, tuple(map(repr, x.tolist())))
        return ("nd", str(x.dtype), x.shape, x.tobytes())
    if isinstance(x, pa.ChunkedArray):
        return ("pac", str(x.type), tuple(tuple(c.to_pylist()) for c in x.chunks))
    if isinstance(x, pa.Array):
        return ("pa", str(x.type), tuple(x.to_pylist()))
    if isinstance(x, pd.MultiIndex):
        return ("mi", tuple(map(repr, x.tolist())), tuple(map(repr, x.names)))
    if isinstance(x, pd.Index):
        return ("idx", str(x.dtype), tuple(map(repr, x.tolist())), repr(x.name))
    if isinstance(x, pd.Series):
        return ("ser", dig(x.index), dig(x.to_numpy()))
    if isinstance(x, dict):
        return ("dict", tuple((repr(k), dig(v)) for k, v in x.items()))
    if isinstance(x, (list, tuple)):
        return ("seq", tuple(dig(i) for i in x))
    if isinstance(x, slice):
        return ("slice", x.start, x.stop, x.step)
    return ("py", repr(x))


def state_of(g):
    h = hashlib.sha1(repr(sorted((k, dig(v)) for k, v in g.__dict__.items())).encode())
    return h.hexdigest()


# --------------------------------------------------------------------------- seeds
NA = float("nan")
SEEDS = {
    # name: (keys builder args, constructor kwargs, seams)
    "float-null-contig": dict(keys=[3, 1, NA, 2, 1, 3, 2, 2], kind="float"),
    "float-null-contig-nosort": dict(keys=[3, 1, NA, 2, 1, 3, 2, 2], kind="float", sort=False),
    "float-null-chunkwise": dict(keys=[3, 1, NA, 2, 1, 3, 2, 2], kind="float", threshold=1),
    "float-null-chunkwise-nosort": dict(keys=[3, 1, NA, 2, 1, 3, 2, 2], kind="float", threshold=1,
                                        sort=False),
    "float-chunkwise-groups-missing": dict(keys=[1, 1, 2, 2, 3, 3, NA, 1], kind="float", threshold=1),
    "float-chunkwise-fanout2": dict(keys=[2, NA, 1, 2, 3, 1], kind="float", threshold=1, fanout=2),
    "float-partially-monotonic": dict(keys=[1, 2, 2, 3, 4, 2, NA, 1], kind="float", threshold=1),
    "float-monotonic": dict(keys=[1, 1, 2, 3, 3, 4], kind="float", threshold=1),
    "int-contig": dict(keys=[3, 1, 2, 2, 1, 3], kind="int"),
    "int-chunkwise": dict(keys=[3, 1, 2, 2, 1, 3, 1], kind="int", threshold=1),
    "str-null-contig": dict(keys=["c", "a", None, "b", "a", "c"], kind="str"),
    "str-null-chunkwise": dict(keys=["c", "a", None, "b", "a", "c"], kind="str", threshold=1),
    "cat-unused": dict(keys=["c", "a", None, "b", "a", "c"], kind="cat"),
    "arrow-prechunked": dict(keys=[3, 1, 2, 2, 1, 3, 2], kind="arrow", chunks=(3, 2, 2)),
    "arrow-prechunked-nosort": dict(keys=[3, 1, 2, 2, 1, 3, 2], kind="arrow", chunks=(2, 5), sort=False),
    "two-keys": dict(keys=[(1, "a"), (2, "b"), (1, "a"), (NA, "b"), (2, None), (2, "a")], kind="two"),
    "two-keys-nosort": dict(keys=[(2, "b"), (1, "a"), (1, "a"), (NA, "b"), (2, None), (2, "a")],
                            kind="two", sort=False),
    "dt-null-chunkwise": dict(keys=[3, 1, NA, 2, 1, 3], kind="dt", threshold=1),
    "series-index-chunkwise": dict(keys=[3, 1, NA, 2, 1, 3, 2, 2], kind="series", threshold=1),
    "float-null-chunkwise@lifo": dict(keys=[3, 1, NA, 2, 1, 3, 2, 2], kind="float", threshold=1, lifo=True),
    "float-partially-monotonic@lifo": dict(keys=[1, 2, 2, 3, 4, 2, NA, 1], kind="float", threshold=1,
                                           lifo=True),
    "arrow-prechunked@lifo": dict(keys=[3, 1, 2, 2, 1, 3, 2], kind="arrow", chunks=(3, 2, 2), lifo=True),
}
QUICK_SEEDS = ["float-null-contig", "float-null-chunkwise", "float-null-chunkwise-nosort",
               "float-chunkwise-groups-missing", "float-partially-monotonic", "str-null-chunkwise",
               "arrow-prechunked", "two-keys", "cat-unused", "int-chunkwise", "float-null-chunkwise@lifo"]

U = (4.0, -1.0, 16.0, 2.0, -64.0, 8.0, 32.0, -128.0)
MASK = (1, 0, 1, 1, 1, 0, 1, 1)


def build_keys(spec):
    import pyarrow as pa

    k, kind = spec["keys"], spec["kind"]
    if kind == "float":
        return np.array(k, dtype="f8")
    if kind == "int":
        return np.array(k, dtype="i8")
    if kind == "str":
        return np.array(k, dtype=object)
    if kind == "cat":
        return pd.Categorical(k, categories=["z", "c", "a", "b"])
    if kind == "arrow":
        cuts = np.cumsum(spec["chunks"])[:-1]
        return pa.chunked_array([pa.array(p) for p in np.split(np.array(k, dtype="f8"), cuts)])
    if kind == "two":
        return [np.array([a for a, _ in k], dtype="f8"), np.array([b for _, b in k], dtype=object)]
    if kind == "dt":
        base = 1_600_000_000
        ints = [np.iinfo("i8").min if (x != x) else (base + int(x)) * 10**9 for x in k]
        return np.array(ints, dtype="i8").view("M8[ns]")
    if kind == "series":
        return pd.Series(np.array(k, dtype="f8"), name="key")
    raise ValueError(kind)


def alphabet(n, full=True):
    """[(name, fn(g, ctx, raw_keys, GroupBy))]"""
    A = []
    cat = O.OPS
    plain = ["size", "count", "sum", "mean", "min", "first", "last", "var", "median", "quantile",
             "apply_sum", "agg_list", "sum_obsF", "sum_t", "mean_t", "last_t", "count_t", "size_t",
             "median_t", "cumsum", "cummax", "cumcount", "rolling_sum", "rolling_max", "shift",
             "diff", "rolling_sum_g", "ema_alpha", "ema_timed", "ema_alpha_g", "head1", "tail2",
             "nth_m1", "groups", "key_count", "ngroups"]
    if not full:
        plain = [p for p in plain if p not in ("quantile", "agg_list", "mean_t", "median_t",
                                               "rolling_max", "diff", "ema_timed", "tail2", "var")]
    for name in plain:
        A.append((name, lambda g, c, raw, GB, f=cat[name].fn: f(g, c), False))
    masked = ["size", "sum", "first", "sum_t", "cumsum", "cumcount", "median", "rolling_sum", "ema_alpha"]
    if not full:
        masked = ["sum", "first", "sum_t", "cumsum", "cumcount", "median"]
    for name in masked:
        A.append((name + "@bool", lambda g, c, raw, GB, f=cat[name].fn: f(g, c), "bool"))
    for name in ("sum", "first", "size"):
        A.append((name + "@slice", lambda g, c, raw, GB, f=cat[name].fn: f(g, c), "slice"))
        A.append((name + "@pos", lambda g, c, raw, GB, f=cat[name].fn: f(g, c), "pos"))
    # narrow / unsigned / bool values: their "empty group" sentinels are ordinary numbers for the
    # scalar reducers, so a merge of partial results that forgets a count shows up only here
    def narrow(dt, op):
        def f(g, c, raw, GB):
            from mc import concrete as C_
            v = np.array(C_.u_table(dt, 0)[:c.n], dtype=C_._np_name(dt))
            if isinstance(c.V, pd.Series):
                v = pd.Series(v, index=c.V.index, name="v")
            return getattr(g, op)(v, mask=c.M)
        return f
    for dt, op, mk in (("i4", "min", False), ("i4", "last", False), ("u1", "max", False), ("b", "min", False),
                       ("i4", "min", "bool"), ("u1", "last", "bool")):
        A.append((f"{op}:{dt}" + ("@bool" if mk else ""), narrow(dt, op), mk))
    # failing calls are calls too: a call that raises (misaligned values / mask, a user function that
    # fails half-way) must leave the grouping as usable as a fresh one
    def _boom(x):
        if len(x) and np.nanmax(x) > 3:
            raise ValueError("user function failed")
        return x.sum()
    fails = {
        "sum:badlen": lambda g, c, raw, GB: g.sum(np.arange(c.n + 1.0)),
        "sum_t:badlen": lambda g, c, raw, GB: g.sum(np.arange(c.n + 1.0), transform=True),
        "cumsum:badmask": lambda g, c, raw, GB: g.cumsum(np.arange(float(c.n)), mask=np.ones(c.n + 1, dtype=bool)),
        "median:badlen": lambda g, c, raw, GB: g.median(np.arange(c.n - 1.0)),
        "apply:raises": lambda g, c, raw, GB: g.apply(np.arange(float(c.n)), _boom),
        "apply_t:raises": lambda g, c, raw, GB: g.apply(np.arange(float(c.n)), _boom, transform=True),
        "sum:strings": lambda g, c, raw, GB: g.sum(np.array(["a"] * c.n, dtype=object)),
        "head:badlen": lambda g, c, raw, GB: g.head(np.arange(c.n + 2.0), 1, keep_input_index=True),
        "rolling_sum:badlen": lambda g, c, raw, GB: g.rolling_sum(np.arange(c.n + 1.0), window=2),
    }
    for name, f in fails.items():
        A.append((name, f, False))
    A.append(("has_null_keys", lambda g, c, raw, GB: g.has_null_keys, False))
    A.append(("ikey_count", lambda g, c, raw, GB: pd.Series(g.ikey_count), False))
    A.append(("count_ikey@bool", lambda g, c, raw, GB: pd.Series(g.count_ikey(mask=c.M)), "bool"))
    A.append(("len", lambda g, c, raw, GB: len(g), False))
    for name in ("sum", "last_t", "cumsum", "groups", "first"):
        A.append(("copy:" + name, lambda g, c, raw, GB, f=cat[name].fn: f(GB(g), c), False))
    for name, call in (("sum", lambda GB, raw, c: GB.sum(raw, c.V)),
                       ("size", lambda GB, raw, c: GB.size(raw)),
                       ("cumsum", lambda GB, raw, c: GB.cumsum(raw, c.V)),
                       ("median", lambda GB, raw, c: GB.median(raw, c.V))):
        A.append(("class:" + name, lambda g, c, raw, GB, f=call: f(GB, raw, c), False))
    return A


class SeedSpace(Subspace):
    shard = 1

    def __init__(self, tier, seed):
        self.name = "seeds"
        self.tier, self.seed = tier, seed
        self.names = QUICK_SEEDS if tier == "quick" else list(SEEDS)
        self.cap = 300 if tier == "quick" else 3000

    def size(self):
        return len(self.names)

    def warm_indices(self, n):
        return (1,)

    def case(self, i):
        return dict(seed_name=self.names[i], cap=self.cap, full=self.tier != "quick",
                    rot=self.seed)

    def run(self, case):
        return bfs(SEEDS[case["seed_name"]], case["seed_name"], case["cap"], case.get("full", True),
                   case.get("rot", 0))


REDUCED = {  # one mutator per class of successor state + the observers that read what they change
    # (the three cached accessors key_count / has_null_keys / ikey_count only multiply the state count by
    # 2^3 with independent cache bits; they stay in the full alphabet of the hand-picked seeds)
    "sum", "median", "sum_t", "median_t", "groups", "cumsum", "head1", "rolling_sum_g", "ema_alpha",
    "sum@bool", "first@bool", "size@slice", "sum@pos", "last_t", "cumsum@bool", "median@bool",
    "rolling_sum", "count_ikey@bool", "min:i4@bool", "size", "copy:last_t", "first@slice",
    "last:u1@bool", "sum_t:badlen", "cumsum:badmask", "apply_t:raises", "median:badlen", "cumcount@bool",
}


def bfs(spec, label, cap, full, rot, reduced=False):
        from groupby_lib import GroupBy

        case = dict(seed_name=label, cap=cap)
        res = Result()
        raw = build_keys(spec)
        n = len(spec["keys"])
        rot = rot % n
        V = np.array((U[rot:] + U[:rot])[:n])
        V[1 % n] = np.nan
        Mb = np.array(MASK[:n], dtype=bool)
        masks = {False: None, "bool": Mb, "slice": slice(1, n - 1), "pos": np.array([n - 1, 0, 0])}
        if isinstance(raw, pd.Series):
            V = pd.Series(V, index=raw.index, name="v")
        T, _ = O.times_for(n)
        VS = V if isinstance(V, pd.Series) else pd.Series(V, index=pd.Index(range(n), dtype="int64"))
        ctxs = {k: O.Ctx(V=V, M=m, V2=None, T=T, VS=VS, n=n) for k, m in masks.items()}
        A = alphabet(n, full)
        if reduced:
            A = [a for a in A if a[0] in REDUCED]
        seams = env.seams()
        seams.set(executor=sched.NAMESPACE, threshold=spec.get("threshold"),
                  fanout=spec.get("fanout"))
        sched.set_schedule(sched.Schedule())
        kw = dict(sort=spec.get("sort", True))

        def fresh(reference=False):
            sched.set_schedule(sched.Schedule([], default=-1 if (lifo and not reference) else 0))
            return GroupBy(build_keys(spec), **kw)

        lifo = bool(spec.get("lifo"))

        def apply(g, a, reference=False):
            name, fn, mk = a
            # '@lifo' seeds: the object under test lives under the all-reversed completion order, the
            # fresh reference object under FIFO (results and later behaviour must not depend on it)
            sched.set_schedule(sched.Schedule([], default=-1 if (lifo and not reference) else 0))
            return gbh.call(lambda: fn(g, ctxs[mk], raw, GroupBy))

        def build(hist):
            g = fresh()
            for ai in hist:
                apply(g, A[ai])
            return g

        fresh_out = {}
        for ai, a in enumerate(A):
            fresh_out[ai] = apply(fresh(reference=True), a, reference=True)
            res.execs += 1
        seen = {state_of(fresh()): ()}
        frontier = collections.deque([()])
        capped = False
        maxdepth = 0
        reported = set()
        while frontier:
            hist = frontier.popleft()
            for ai, a in enumerate(A):
                g = build(hist)
                o = apply(g, a)
                res.execs += 1
                f = fresh_out[ai]
                if o.key() != f.key():
                    if f.raised and o.raised and f.raised.split(":")[0] == o.raised.split(":")[0]:
                        pass
                    else:
                        why = gbh.same_mapping(o, f, ordered=True) or "normal forms differ (dtype/name/shape)"
                        sig = (a[0], why[:60])
                        if sig not in reported and len(reported) < 25:
                            reported.add(sig)
                            res.fail("history", f"{case['seed_name']}: after "
                                                f"{[A[i][0] for i in hist]} then {a[0]}: {why} "
                                                f"(vs fresh object)")
                s = state_of(g)
                if s not in seen:
                    if len(seen) >= case["cap"]:
                        capped = True
                        continue
                    seen[s] = hist + (ai,)
                    maxdepth = max(maxdepth, len(hist) + 1)
                    frontier.append(hist + (ai,))
        res.states = len(seen)
        res.nontrivial = len(seen) > 1
        if reduced:
            res.extra = {"state_cap_hit": int(capped), "seeds_closed": int(not capped),
                         f"word_seeds_with_{min(len(seen), 99):02d}_states": 1,
                         f"word_seeds_with_depth_{maxdepth}": 1}
        else:
            res.extra = {"state_cap_hit": int(capped), f"maxdepth_{case['seed_name']}": maxdepth,
                         f"states_{case['seed_name']}": len(seen), "seeds_closed": int(not capped)}
        seams.reset()
        return res


class WordSeedSpace(Subspace):
    """Every key word over {null, 0, 1, 2} up to a length as the seed of its own state-graph search
    (chunk-wise representation, so that the object re-organises itself), reduced alphabet."""
    shard = 2

    def __init__(self, name, lo, hi, configs, seed=0, cap=150):
        from .. import words as W
        self.name, self.seed, self.cap = name, seed, cap
        self.ws = W.WordSpace(W.K(3), lo, hi)
        self.configs = configs  # [(fanout, sort)]
        self.warm_key = "wordseeds"

    def size(self):
        return len(self.ws) * len(self.configs)

    def warm_indices(self, n):
        return (n - 1,)

    def case(self, i):
        wi, ci = divmod(i, len(self.configs))
        F, S = self.configs[ci]
        return dict(word=[int(k) for k in self.ws.at(wi)], fanout=F, sort=S, cap=self.cap, rot=self.seed)

    def run(self, case):
        labels = (3.0, 1.0, 2.0)
        r = case.get("rot", 0) % 3
        labels = labels[r:] + labels[:r]
        keys = [NA if k < 0 else labels[k] for k in case["word"]]
        spec = dict(keys=keys, kind="float", threshold=1, fanout=case["fanout"], sort=case["sort"])
        return bfs(spec, f"word={case['word']} fanout={case['fanout']} sort={case['sort']}", case["cap"],
                   True, case.get("rot", 0), reduced=True)


def subspaces(tier, seed):
    sp = [SeedSpace(tier, seed)]
    if tier == "quick":
        sp.append(WordSeedSpace("wordseeds-K3-n2to3", 2, 3, [(2, True), (3, False)], seed=seed))
    else:
        sp.append(WordSeedSpace("wordseeds-K3-n2to4", 2, 4, [(2, True), (2, False), (3, True), (3, False),
                                                             (4, True)], seed=seed))
    return sp
