"""C18 - misaligned inputs are rejected, never silently mis-grouped."""
from __future__ import annotations

import io
import contextlib

import numpy as np
import pandas as pd

from .. import sched
from ..engine import Result, Subspace
from .. import env

PROPERTY_ID = "C18"
TECHNIQUE = ("exhaustive enumeration of (public operation x array argument x length delta in "
             "{-2,-1,+1,+2} / index perturbation x n in 3..5 x container), each executed on the real "
             "implementation next to its aligned control: misaligned must raise, aligned must not")
RULE = ("case = one (operation, argument, perturbation, n, container) cell; perturbations: length "
        "off by -2,-1,+1,+2 for every array argument (ndarray and Series), and for pandas arguments "
        "against keys with an index: permuted, shifted, duplicated and relabelled index of equal "
        "length; every cell also runs the aligned control; non-trivial = every perturbed cell")
ASSUMPTIONS = [
    "aligned controls also under non-default indexes: every pandas argument labelled alike ('labelled') and only the keys labelled, everything else a bare array ('labelled-first')",
    'mask kinds: boolean masks are perturbed; slice and positional masks appear as fixed arguments of kernels and reductions (row-aligned operations document boolean masks only); multi-block kernel path (n_threads 2, 3) with boolean masks; facade size / cumcount / frame cells',
    "integer-position masks are indexers, not row-aligned arrays: exempt from the length rule",
    "an argument without an index (ndarray) next to keys with an index is aligned by position",
    "the enumerated operation table (about 60 entry points incl. kernels, emas, crosstab, facade) "
    "is the quantifier's 'every public operation'",
]

BASE_KEYS = [3.0, 1.0, 3.0, 2.0, 1.0, 3.0, 2.0]
BASE_VALS = [4.0, -1.0, 16.0, 2.0, -64.0, 8.0, 32.0]


def _mk(n, what, container, index=None, vkind="f8"):
    if what in ("values", "values2") and vkind != "f8":
        # temporal values: integers beyond 2**53 viewed as instants / durations
        base = np.array(BASE_VALS[:n]).astype("i8") * (1 if what == "values" else 2)
        a = (base + (1_600_000_000 * 10**9 if vkind == "dt" else 0)).view("M8[ns]" if vkind == "dt" else "m8[ns]")
        if container == "series":
            return pd.Series(a, index=index if index is not None else pd.RangeIndex(n))
        return a
    if what == "keys":
        a = np.array(BASE_KEYS[:n])
    elif what == "codes":
        a = np.array([0, 1, 0, 2, 1, 0, 2][:n], dtype=np.int64)
    elif what in ("values", "values2"):
        a = np.array(BASE_VALS[:n]) * (1.0 if what == "values" else 2.0)
    elif what in ("mask", "mask2"):
        a = np.array([1, 0, 1, 1, 1, 0, 1][:n], dtype=bool)
    elif what == "times":
        a = (np.arange(n) * 10**9 + 1_600_000_000 * 10**9).astype("i8").view("M8[ns]")
    else:
        raise ValueError(what)
    if container == "series":
        return pd.Series(a, index=index if index is not None else pd.RangeIndex(n))
    return a


def _resize(a, delta):
    n = len(a)
    if delta < 0:
        return a[: n + delta] if not isinstance(a, pd.Series) else a.iloc[: n + delta]
    if isinstance(a, pd.Series):
        extra = pd.Series(np.asarray(a)[:delta], index=pd.RangeIndex(n, n + delta))
        return pd.concat([a, extra])
    return np.concatenate([a, a[:delta]])


INDEX_PERTURB = {
    "permuted": lambda n: pd.Index(list(range(n))[::-1]),
    "shifted": lambda n: pd.RangeIndex(1, n + 1),
    "duplicated": lambda n: pd.Index([0] * n),
    "relabelled": lambda n: pd.Index([f"r{i}" for i in range(n)]),
}


def OPS():
    from groupby_lib import GroupBy
    from groupby_lib.groupby import numba as nbm
    from groupby_lib.groupby.core import crosstab
    from groupby_lib import emas

    G = lambda a: GroupBy(a["keys"])
    t = {}
    for name in ("sum", "mean", "min", "max", "count", "first", "last", "var", "std", "median"):
        t[name] = (("keys", "values", "mask"),
                   lambda a, f=name: getattr(G(a), f)(a["values"], mask=a["mask"]))
    t["size"] = (("keys", "mask"), lambda a: G(a).size(mask=a["mask"]))
    t["sum_transform"] = (("keys", "values", "mask"), lambda a: G(a).sum(a["values"], mask=a["mask"], transform=True))
    t["sum_list"] = (("keys", "values", "values2"), lambda a: G(a).sum([a["values"], a["values2"]]))
    t["sum_dict"] = (("keys", "values", "values2"), lambda a: G(a).sum({"a": a["values"], "b": a["values2"]}))
    t["agg_list"] = (("keys", "values", "mask"), lambda a: G(a).agg(a["values"], ["sum", "max"], mask=a["mask"]))
    t["quantile"] = (("keys", "values", "mask"), lambda a: G(a).quantile(a["values"], [0.5], mask=a["mask"]))
    t["apply"] = (("keys", "values", "mask"), lambda a: G(a).apply(a["values"], np.sum, mask=a["mask"]))
    t["ratio"] = (("keys", "values", "values2", "mask"), lambda a: G(a).ratio(a["values"], a["values2"], mask=a["mask"]))
    t["subset_ratio"] = (("keys", "values", "mask", "mask2"),
                         lambda a: G(a).subset_ratio(a["values"], a["mask"], a["mask2"]))
    for name in ("cumsum", "cummin", "cummax"):
        t[name] = (("keys", "values", "mask"), lambda a, f=name: getattr(G(a), f)(a["values"], mask=a["mask"]))
    t["cumcount"] = (("keys", "mask"), lambda a: G(a).cumcount(mask=a["mask"]))
    for name in ("rolling_sum", "rolling_mean", "rolling_min", "rolling_max"):
        t[name] = (("keys", "values", "mask"),
                   lambda a, f=name: getattr(G(a), f)(a["values"], window=2, min_periods=1, mask=a["mask"]))
    t["rolling_sum_gsorted"] = (("keys", "values", "mask"),
                                lambda a: G(a).rolling_sum(a["values"], window=2, min_periods=1,
                                                           mask=a["mask"], index_by_groups=True))
    t["shift"] = (("keys", "values", "mask"), lambda a: G(a).shift(a["values"], mask=a["mask"]))
    t["diff"] = (("keys", "values", "mask"), lambda a: G(a).diff(a["values"], mask=a["mask"]))
    t["ema_alpha"] = (("keys", "values", "mask"), lambda a: G(a).ema(a["values"], alpha=0.5, mask=a["mask"]))
    t["ema_timed"] = (("keys", "values", "times", "mask"),
                      lambda a: G(a).ema(a["values"], halflife="2s", times=a["times"], mask=a["mask"]))
    t["ema_gsorted"] = (("keys", "values"), lambda a: G(a).ema(a["values"], alpha=0.5, index_by_groups=True))
    t["ema_timed_gsorted"] = (("keys", "values", "times", "mask"),
                              lambda a: G(a).ema(a["values"], halflife="2s", times=a["times"], mask=a["mask"],
                                                 index_by_groups=True))
    for name, arg in (("head", 1), ("tail", 2), ("nth", 0)):
        t[name] = (("keys", "values"), lambda a, f=name, k=arg: getattr(G(a), f)(a["values"], k))
        t[name + "_keepindex"] = (("keys", "values"),
                                  lambda a, f=name, k=arg: getattr(G(a), f)(a["values"], k, keep_input_index=True))
    t["group_nearby_members"] = (("keys", "values"), lambda a: G(a).group_nearby_members(a["values"], 1.0))
    t["class_sum"] = (("keys", "values", "mask"), lambda a: GroupBy.sum(a["keys"], a["values"], mask=a["mask"]))
    t["two_keys_sum"] = (("keys", "values2", "values"),
                         lambda a: GroupBy([a["keys"], a["values2"]]).sum(a["values"]))
    t["crosstab"] = (("keys", "values2", "values", "mask"),
                     lambda a: crosstab(a["keys"], a["values2"], a["values"], mask=a["mask"]))
    t["emas.ema_timed"] = (("values", "times"), lambda a: emas.ema(a["values"], halflife="2s", times=a["times"]))
    t["emas.ema_grouped"] = (("codes", "values", "mask"),
                             lambda a: emas.ema_grouped(a["codes"], 3, a["values"], alpha=0.5, mask=a["mask"]))
    t["emas.ema_grouped_timed"] = (("codes", "values", "times", "mask"),
                                   lambda a: emas.ema_grouped(a["codes"], 3, a["values"], halflife="2s",
                                                              times=a["times"], mask=a["mask"]))
    for k in ("sum", "mean", "min", "max", "first", "last", "count", "sum_squares"):
        t["numba.group_" + k] = (("codes", "values", "mask"),
                                 lambda a, f=k: getattr(nbm, "group_" + f)(a["codes"], a["values"], 3, a["mask"]))
        t["numba.group_" + k + "_T2"] = (("codes", "values"),
                                         lambda a, f=k: getattr(nbm, "group_" + f)(a["codes"], a["values"], 3, None, 2))
        # the other mask kinds as fixed arguments (a slice is applied to keys and values before anything
        # else happens), and boolean masks on the multi-block path (converted to positions before the split)
        t["numba.group_" + k + "@slice"] = (("codes", "values"),
                                            lambda a, f=k: getattr(nbm, "group_" + f)(a["codes"], a["values"], 3, slice(0, 2)))
        t["numba.group_" + k + "@pos"] = (("codes", "values"),
                                          lambda a, f=k: getattr(nbm, "group_" + f)(a["codes"], a["values"], 3, np.array([0, 2])))
        for T in (2, 3):
            t[f"numba.group_{k}_T{T}_mask"] = (("codes", "values", "mask"),
                                               lambda a, f=k, T=T: getattr(nbm, "group_" + f)(a["codes"], a["values"], 3, a["mask"], T))
    t["numba.group_size"] = (("codes", "mask"), lambda a: nbm.group_size(a["codes"], 3, a["mask"]))
    t["numba.group_size_T2"] = (("codes", "mask"), lambda a: nbm.group_size(a["codes"], 3, a["mask"], 2))
    for name in ("sum", "first", "count"):
        t[name + "@slice"] = (("keys", "values"), lambda a, f=name: getattr(G(a), f)(a["values"], mask=slice(1, None)))
        t[name + "@pos"] = (("keys", "values"), lambda a, f=name: getattr(G(a), f)(a["values"], mask=np.array([0, 2])))
    # (row-aligned operations document boolean masks only: no slice / position cells for them)
    for k in ("cumsum", "cummin", "cummax"):
        t["numba." + k] = (("codes", "values", "mask"), lambda a, f=k: getattr(nbm, f)(a["codes"], a["values"], 3, a["mask"]))
    for k in ("rolling_sum", "rolling_mean", "rolling_min", "rolling_max"):
        t["numba." + k] = (("codes", "values", "mask"),
                           lambda a, f=k: getattr(nbm, f)(a["codes"], a["values"], 3, 2, 1, a["mask"]))
    for k in ("rolling_shift", "rolling_diff"):
        t["numba." + k] = (("codes", "values", "mask"),
                           lambda a, f=k: getattr(nbm, f)(a["codes"], a["values"], 3, 1, a["mask"]))
    t["numba.group_nearby_members"] = (("codes", "values"),
                                       lambda a: nbm.group_nearby_members(a["codes"], a["values"], 1.0, 3))
    # pandas-style facade
    def facade_series(a, how):
        from groupby_lib.groupby.monkey_patch import install_groupby_fast
        install_groupby_fast()
        s = a["values"] if isinstance(a["values"], pd.Series) else pd.Series(a["values"])
        gb = s.groupby_fast(a["keys"])
        return getattr(gb, how)()
    t["facade.series.sum"] = (("keys", "values"), lambda a: facade_series(a, "sum"))
    t["facade.series.cumsum"] = (("keys", "values"), lambda a: facade_series(a, "cumsum"))
    # methods that never look at the values: the grouped object is still their values input
    t["facade.series.size"] = (("keys", "values"), lambda a: facade_series(a, "size"))
    t["facade.series.cumcount"] = (("keys", "values"), lambda a: facade_series(a, "cumcount"))

    def facade_frame(a, how):
        from groupby_lib.groupby.monkey_patch import install_groupby_fast
        install_groupby_fast()
        v = a["values"]
        df = pd.DataFrame({"x": v, "y": np.asarray(v)}) if isinstance(v, pd.Series) else \
            pd.DataFrame({"x": v, "y": v})
        return getattr(df.groupby_fast(a["keys"]), how)()
    for how in ("sum", "size", "cumcount", "cumsum"):
        t["facade.frame." + how] = (("keys", "values"), lambda a, h=how: facade_frame(a, h))
    return t


class AlignSpace(Subspace):
    shard = 40

    def __init__(self, tier, seed=0):
        self.name = "cells"
        import itertools
        cells = []
        # op names are needed without importing the library here: build lazily in worker too
        self._cells = None
        self.tier = tier

    def _build(self):
        if self._cells is not None:
            return
        ops = OPS()
        cells = []
        for name, (args, _) in ops.items():
            for arg in args:
                for n in (3, 4, 5):
                    for cont in ("ndarray", "series"):
                        for delta in (-2, -1, 1, 2):
                            cells.append((name, arg, n, cont, "len", delta))
                    if arg not in ("codes",):
                        for kind in INDEX_PERTURB:
                            cells.append((name, arg, n, "series", "index", kind))
                            # only the keys and this argument are pandas objects, the rest NumPy
                            cells.append((name, arg, n, "pair", "index", kind))
        # aligned controls under a NON-default index: every pandas argument carries the same labels
        # ('labelled'), or only the first argument (the keys) is labelled and the rest are bare arrays
        # ('labelled-first'): aligned inputs must never be rejected
        for name, (args, _) in ops.items():
            for n in (3, 5):
                for lab in ("strings", "shifted", "reversed"):
                    cells.append((name, args[0], n, "labelled", "control", lab))
                    if not name.startswith("facade."):  # the facade's object is always a pandas object
                        cells.append((name, args[0], n, "labelled-first", "control", lab))
        cells = [c + ("f8",) for c in cells]
        # the same table with temporal values (operations that do not take them drop out at the
        # aligned control)
        for vk in ("dt", "td"):
            for name, (args, _) in ops.items():
                if "values" not in args:
                    continue
                for arg in args:
                    for delta in (-1, 1):
                        cells.append((name, arg, 4, "series", "len", delta, vk))
                    if arg != "codes":
                        for kind in INDEX_PERTURB:
                            cells.append((name, arg, 4, "series", "index", kind, vk))
                            cells.append((name, arg, 4, "pair", "index", kind, vk))
        self._cells = cells

    def size(self):
        self._build()
        return len(self._cells)

    def case(self, i):
        self._build()
        name, arg, n, cont, ptype, p, vk = self._cells[i]
        return dict(op=name, arg=arg, n=n, container=cont, ptype=ptype, p=p, vkind=vk)

    def run(self, case):
        res = Result()
        res.nontrivial = True
        ops = OPS()
        args, fn = ops[case["op"]]
        n, cont = case["n"], case["container"]
        vkind = case.get("vkind", "f8")
        seams = env.seams()
        seams.set(executor=sched.NAMESPACE)
        sched.set_schedule(sched.Schedule())

        LAB = {"strings": lambda n: pd.Index([f"r{i}" for i in range(n)]),
               "shifted": lambda n: pd.RangeIndex(5, 5 + n),
               "reversed": lambda n: pd.Index(list(range(n))[::-1])}

        def build():
            a = {k: None for k in ("keys", "codes", "values", "values2", "mask", "mask2", "times")}
            for k in args:
                if cont in ("labelled", "labelled-first"):
                    if k == "codes" or (cont == "labelled-first" and k != args[0]):
                        a[k] = _mk(n, k, "ndarray", vkind=vkind)
                    else:
                        a[k] = _mk(n, k, "series", index=LAB[case["p"]](n), vkind=vkind)
                elif cont == "pair":
                    first = args[0]
                    a[k] = _mk(n, k, "series" if k in (first, case["arg"]) else "ndarray", vkind=vkind)
                else:
                    a[k] = _mk(n, k, cont, vkind=vkind)
            return a

        def attempt(a):
            try:
                with contextlib.redirect_stdout(io.StringIO()):
                    fn(a)
                return None
            except Exception as e:  # noqa
                return f"{type(e).__name__}: {str(e)[:100]}"

        # aligned control
        res.execs += 1
        err = attempt(build())
        tag = f"{case['op']}({', '.join(args)}) n={n} {cont}" + ("" if vkind == "f8" else f" {vkind} values")
        if err is not None:
            if vkind == "f8":
                res.fail("aligned-rejected", f"{tag}: aligned inputs raised {err}")
            else:
                res.nontrivial = False    # the operation is not defined for temporal values
            seams.reset()
            return res
        if case["ptype"] == "control":
            seams.reset()
            return res
        a = build()
        arg = case["arg"]
        if case["ptype"] == "len":
            a[arg] = _resize(a[arg], case["p"])
            what = f"{arg} length {n}{case['p']:+d}"
        else:
            # keys (or the first argument) keep the default index, `arg` gets a different one;
            # when `arg` is the keys argument itself, every other pandas argument keeps the default
            a[arg] = pd.Series(np.asarray(a[arg]), index=INDEX_PERTURB[case["p"]](n))
            what = f"{arg} index {case['p']}"
            others = [k for k in args if k != arg and isinstance(a[k], pd.Series)]
            if not others:
                seams.reset()
                return res
        res.execs += 1
        err = attempt(a)
        if err is None:
            res.fail("misaligned-accepted", f"{tag}: {what} was accepted (returned a result)")
        seams.reset()
        return res


def subspaces(tier, seed):
    return [AlignSpace(tier, seed)]
