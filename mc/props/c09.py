"""C09 - rolling operations are per-group sliding-window reductions."""
from __future__ import annotations

import io
import contextlib

import numpy as np
import pandas as pd

from .. import concrete as C
from .. import gbh
from .. import refmodel as R
from .. import sched
from .. import words as W
from ..engine import Result, Subspace
from .. import env
from .c01 import row_alphabet

PROPERTY_ID = "C09"
TECHNIQUE = ("bounded exhaustive enumeration of single-group value sequences (circular-buffer "
             "histories) x window x min_periods x operation, plus group-interleaving words x dtypes "
             "x layouts and a boundary family for the counter widths, on the real rolling kernels "
             "and GroupBy methods against a pure-Python sliding-window reference")
RULE = ("S1 case = one sequence over {null, 1, 2, 3, rejected} of one group, run for every window "
        "1..4 x min_periods 1..window x {sum, mean, min, max, shift, diff}; S2 case = one word over "
        "rows (key incl. null, value, mask bit) x dtype, kernel and GroupBy level, both layouts; S5 = "
        "finite boundary family (group length / window around 32767/32768); non-trivial = sequence "
        "longer than the window or containing a null/rejected row")
ASSUMPTIONS = [
    "S6: GroupBy-level rolling sum/mean/max/min/shift/diff on two interleaved groups of 127..300 rows with int8 group codes (small categorical, bool keys), windows 2 and around 127/128, every row compared with pandas on the group's subsequence",
    "S1 length <= 6 (quick) / 7 (thorough); S2 n <= 4 / 5 rows, window <= 3",
    "S1 values from {1,2,3} (all order patterns incl. ties), S2 values from the position table",
    "temporal tables hold ns values above 2**53 with odd nanoseconds (float detours are visible)",
]

KOPS = ("sum", "mean", "min", "max", "shift", "diff")


def kernel_call(nbm, op, codes, vals, G, window, mp, M):
    if op in ("shift", "diff"):
        return getattr(nbm, "rolling_" + op)(codes, vals, G, window, M)
    return getattr(nbm, "rolling_" + op)(codes, vals, G, window, mp, M)


def compare(res, tag, exp, defined, obs, odt, facet="values"):
    if len(obs) != len(exp):
        res.fail(facet, f"{tag}: {len(obs)} values for {len(exp)} rows")
        return False
    for i in range(len(exp)):
        if defined[i] and not C.same(exp[i], obs[i], None, rtol=1e-12):
            res.fail(facet, f"{tag}: row {i}: expected {exp[i]} got {obs[i]}")
            return False
    return True


class SeqSpace(Subspace):
    """S1: one group, sequences over {null,1,2,3,rejected}"""
    shard = 60

    def __init__(self, name, lo, hi, dtype="f8", seed=0):
        self.name = name
        self.dtype, self.seed = dtype, seed
        self.ws = W.WordSpace(["n", 1, 2, 3, "m"], lo, hi)
        self.warm_key = f"seq-{dtype}"

    def size(self):
        return len(self.ws)

    def case(self, i):
        return dict(seq=self.ws.at(i), dtype=self.dtype, seed=self.seed)

    def run(self, case):
        import groupby_lib.groupby.numba as nbm

        res = Result()
        seq = case["seq"]
        n = len(seq)
        # rejected rows carry a value that would win every extremum if it leaked
        order = [1, 2, 3]
        sd = case.get("seed", 0) % 3
        remap = {1: order[sd % 3], 2: order[(sd + 1) % 3], 3: order[(sd + 2) % 3]}
        py = [None if s == "n" else (100 if s == "m" else remap[s]) for s in seq]
        ms = [0 if s == "m" else 1 for s in seq]
        dt = np.dtype(case["dtype"])
        if dt.kind == "f":
            vals = np.array([np.nan if v is None else v for v in py], dtype=dt)
        else:
            if None in py:
                return res
            vals = np.array(py, dtype=dt)
        codes = np.zeros(n, dtype=np.int64)
        M = np.array(ms, dtype=bool) if 0 in ms else None
        mref = ms if 0 in ms else None
        res.nontrivial = n >= 2
        for window in (1, 2, 3, 4):
            for op in KOPS:
                mps = range(1, window + 1) if op in ("sum", "mean", "min", "max") else (None,)
                for mp in mps:
                    exp, defined = R.rolling(op, [0] * n, py, window, mp, mref)
                    res.execs += 1
                    tag = f"rolling_{op} window={window} min_periods={mp}"
                    try:
                        out = kernel_call(nbm, op, codes, vals, 1, window, mp, M)
                    except Exception as e:  # noqa
                        res.fail("total", f"{tag}: raised {type(e).__name__}: {str(e)[:120]}")
                        continue
                    compare(res, tag, exp, defined, gbh.norm_np(out), None)
        return res


class WordSpace9(Subspace):
    """S2-S4: group interleavings x dtype, kernel + GroupBy level, both layouts"""
    shard = 60

    def __init__(self, name, G, lo, hi, vdtype="f8", rep="contig", index="default", seed=0):
        self.name = name
        self.vdtype, self.rep, self.index, self.seed = vdtype, rep, index, seed
        alpha = row_alphabet(G, 1, [True], C.can_null(vdtype), True)
        self.ws = W.WordSpace(alpha, lo, hi)
        self.warm_key = f"w-{vdtype}-{rep}"

    def size(self):
        return len(self.ws)

    def case(self, i):
        return dict(w=[[list(r[0])] + list(r[1:]) for r in self.ws.at(i)], vdtype=self.vdtype,
                    rep=self.rep, index=self.index, seed=self.seed)

    def run(self, case):
        import groupby_lib.groupby.numba as nbm
        from groupby_lib import GroupBy

        res = Result()
        d = gbh.Data(case["w"], ("float",), case["vdtype"], case["seed"])
        n = d.n
        ks = [-1 if g is None else g for g in d.gids]
        ms = list(d.ms)
        py = d.py
        in_dt = d.V.dtype
        temporal = in_dt.kind in "mM"
        unit_ns = gbh._UNIT_NS[np.datetime_data(in_dt)[0]] if temporal else 1
        M = np.array(ms, dtype=bool)
        codes = np.array(ks, dtype=np.int64)
        res.nontrivial = n >= 2
        seams = env.seams()
        seams.set(executor=sched.NAMESPACE, threshold=1 if case["rep"] == "chunkwise" else None)
        sched.set_schedule(sched.Schedule())
        idx = None
        if case["index"] == "shuffled":
            idx = pd.Index([7, 3, 9, 1, 5, 2][:n], dtype="int64")
        elif case["index"] == "duplicates":
            idx = pd.Index([1, 1, 2, 2, 1, 3][:n], dtype="int64")
        Vg = d.V if idx is None else pd.Series(d.V, index=idx, name="v")
        Mg = M if idx is None else pd.Series(M, index=idx)
        if in_dt.kind == "m":
            ops = KOPS  # sums / means of durations are durations
        elif temporal:
            ops = ("min", "max", "shift", "diff")
        else:
            ops = KOPS
        inputs = set(v for v in py if v is not None)
        for masked in ((False, True) if 0 in ms else (False,)):
            mref = ms if masked else None
            for window in (1, 2, 3):
                for op in ops:
                    mps = (1, window) if op in ("sum", "mean", "min", "max") else (None,)
                    for mp in sorted(set(mps), key=str):
                        exp, defined = R.rolling(op, ks, py, window, mp, mref)
                        tag = (f"rolling_{op} window={window} min_periods={mp} "
                               f"mask={''.join(map(str, ms)) if masked else 'none'}")
                        for level in ("kernel", "GroupBy", "GroupBy-gsorted"):
                            if level == "GroupBy-gsorted" and (op in ("shift", "diff") or temporal
                                                              or window != 2):
                                continue
                            res.execs += 1
                            try:
                                with contextlib.redirect_stdout(io.StringIO()):
                                    if level == "kernel":
                                        out = kernel_call(nbm, op, codes, d.V, 3, window, mp,
                                                          M if masked else None)
                                        obs, odt = gbh.norm_np(out), np.asarray(out).dtype
                                    else:
                                        g = GroupBy(d.keyarg)
                                        kw = dict(window=window, mask=Mg if masked else None)
                                        if op in ("shift", "diff"):
                                            out = getattr(g, op)(Vg, **kw)
                                        else:
                                            out = getattr(g, "rolling_" + op)(
                                                Vg, min_periods=mp,
                                                index_by_groups=(level == "GroupBy-gsorted"), **kw)
                            except Exception as e:  # noqa
                                res.fail("total", f"{tag} [{level}]: raised {type(e).__name__}: {str(e)[:120]}")
                                continue
                            if level == "GroupBy":
                                obs, dts = gbh.norm_values(out)
                                odt = out.dtype
                                want_idx = list(range(n)) if idx is None else list(idx)
                                if list(out.index) != want_idx:
                                    res.fail("index", f"{tag} [{level}]: index {list(out.index)}")
                            if level == "GroupBy-gsorted":
                                self._check_gsorted(res, tag, out, d, exp, defined, ks, mref, idx)
                                continue
                            if temporal and op in ("sum", "mean"):
                                # durations: result is a duration in the input's unit; the mean may be
                                # truncated to a whole unit
                                if not (isinstance(odt, np.dtype) and odt == in_dt):
                                    res.fail("dtype", f"{tag} [{level}]: {in_dt} in, {odt} out")
                                ok = len(obs) == n
                                for i in range(n):
                                    if not ok or not defined[i]:
                                        continue
                                    e, o_ = exp[i], obs[i]
                                    if (e is None) != (o_ is None):
                                        ok = False
                                    elif e is not None and abs(e - o_) > max(unit_ns, 1e-12 * abs(e)):
                                        ok = False
                                    if not ok:
                                        res.fail("values", f"{tag} [{level}]: row {i}: expected {e} got {o_}")
                                        break
                                continue
                            if temporal and op != "diff":
                                # exactness: results are input values, dtype unchanged
                                if odt != in_dt:
                                    res.fail("dtype", f"{tag} [{level}]: {in_dt} in, {odt} out")
                                extra = [v for i, v in enumerate(obs) if defined[i] and v is not None
                                         and v not in inputs]
                                if extra:
                                    res.fail("exactness", f"{tag} [{level}]: {extra[0]} is not an input value")
                            if temporal and op == "diff":
                                if not (isinstance(odt, np.dtype) and odt.kind == "m"
                                        and np.datetime_data(odt)[0] == np.datetime_data(in_dt)[0]):
                                    res.fail("dtype", f"{tag} [{level}]: diff of {in_dt} is {odt}")
                            compare(res, f"{tag} [{level}]", exp, defined, obs, None)
        seams.reset()
        return res

    @staticmethod
    def _check_gsorted(res, tag, out, d, exp, defined, ks, mref, idx):
        """group-sorted layout: same numbers under a (group label, original index) index"""
        o = gbh.normalise(out)
        labs = o.labels
        vals = next(iter(o.values.values()))
        n = d.n
        orig = list(range(n)) if idx is None else list(idx)
        want = []
        present = sorted({k for k in ks if k >= 0}, key=lambda g: d.label_of(g))
        for g in present:
            for i in range(n):
                if ks[i] == g and (mref is None or mref[i]):
                    want.append(((d.label_of(g), orig[i]), exp[i], defined[i]))
        if [w[0] for w in want] != labs:
            res.fail("layout", f"{tag} [gsorted]: index {labs} expected {[w[0] for w in want]}")
            return
        for (lab, e, df), v in zip(want, vals):
            if df and not C.same(e, v, None, rtol=1e-12):
                res.fail("layout", f"{tag} [gsorted]: at {lab}: expected {e} got {v}")
                return


class BoundarySpace(Subspace):
    """S5: finite boundary family for the counter widths"""
    shard = 1

    def __init__(self, tier, seed=0):
        self.name = "S5-counter-boundaries"
        q = tier == "quick"
        Ls = (32769, 40000) if q else (32766, 32767, 32768, 32769, 40000, 70000)
        Ws = (2, 32768) if q else (2, 32767, 32768, 40000)
        self.cases = [(L, w, ng) for L in Ls for w in Ws for ng in (1, 2) if w <= L + 1]

    def size(self):
        return len(self.cases)

    def warm_indices(self, n):
        return (0,)

    def case(self, i):
        L, w, ng = self.cases[i]
        return dict(L=L, window=w, ngroups=ng)

    def run(self, case):
        import groupby_lib.groupby.numba as nbm

        res = Result()
        L, w, ng = case["L"], case["window"], case["ngroups"]
        n = L * ng
        codes = (np.arange(n) % ng).astype(np.int64)
        vals = ((np.arange(n) * 7919) % 1013).astype("f8")
        vals[::97] = np.nan
        res.nontrivial = True
        s = pd.Series(vals)
        for op in ("sum", "max", "min", "shift"):
            res.execs += 1
            tag = f"rolling_{op} L={L} window={w} groups={ng}"
            try:
                out = kernel_call(nbm, op, codes, vals, ng, w, 1, None)
            except Exception as e:  # noqa
                res.fail("total", f"{tag}: raised {type(e).__name__}: {str(e)[:100]}")
                continue
            # reference via numpy on each group's subsequence (sliding window over the last w rows)
            ok = True
            for g in range(ng):
                sub = vals[g::ng]
                got = np.asarray(out)[g::ng]
                if op == "shift":
                    want = np.full(len(sub), np.nan)
                    if w < len(sub):
                        want[w:] = sub[:-w]
                else:
                    r = pd.Series(sub).rolling(w, min_periods=1)
                    want = getattr(r, op)().to_numpy()
                    if op == "sum":
                        # pandas yields 0.0 for an all-null window with min_periods=1?  no: NaN
                        pass
                # only spot positions are compared exactly: first rows, around the window edge, the tail
                pos = sorted(set([0, 1, w - 1, w, w + 1, len(sub) - 2, len(sub) - 1,
                                  32766, 32767, 32768, 32769]) & set(range(len(sub))))
                for p in pos:
                    a, b = got[p], want[p]
                    if (np.isnan(a) != np.isnan(b)) or (not np.isnan(a) and abs(a - b) > 1e-6 * max(1, abs(b))):
                        res.fail("boundary", f"{tag}: group {g} row {p}: expected {b} got {a}")
                        ok = False
                        break
                if not ok:
                    break
        return res


class NarrowCodeSpace(Subspace):
    """S6: GroupBy-level boundary family for narrow group codes (int8 codes of small categoricals and
    boolean keys): two interleaved groups of L rows, windows around 127/128, every row compared."""
    shard = 1

    def __init__(self, tier, seed=0):
        self.name = "S6-narrow-group-codes"
        q = tier == "quick"
        Ls = (129, 300) if q else (127, 128, 129, 255, 256, 257, 300)
        Ws = (2, 128) if q else (2, 127, 128, 129, 200)
        self.cases = [(L, w, kk) for L in Ls for w in Ws for kk in ("cat8", "bool") if w <= L]

    def size(self):
        return len(self.cases)

    def warm_indices(self, n):
        return (0,)

    def case(self, i):
        L, w, kk = self.cases[i]
        return dict(L=L, window=w, keykind=kk)

    def run(self, case):
        from groupby_lib import GroupBy

        res = Result()
        res.nontrivial = True
        L, w, kk = case["L"], case["window"], case["keykind"]
        n = 2 * L
        codes = (np.arange(n) % 2).astype(np.int64)
        keys = pd.Categorical.from_codes(codes.astype("i1"), categories=["a", "b", "c"]) if kk == "cat8" \
            else codes.astype(bool)
        vals = ((np.arange(n) * 7919) % 1013).astype("f8")
        vals[::17] = np.nan
        for op in ("sum", "mean", "max", "min", "shift", "diff"):
            for mp in ((1, w) if op not in ("shift", "diff") else (None,)):
                res.execs += 1
                tag = f"rolling_{op} L={L} window={w} min_periods={mp} {kk} keys"
                try:
                    g = GroupBy(keys)
                    with contextlib.redirect_stdout(io.StringIO()):
                        if op == "shift":
                            out = g.shift(vals, window=w)
                        elif op == "diff":
                            out = g.diff(vals, window=w)
                        else:
                            out = getattr(g, "rolling_" + op)(vals, window=w, min_periods=mp)
                    got_all = np.asarray(out, dtype="f8")
                except Exception as e:  # noqa
                    res.fail("total", f"{tag}: raised {type(e).__name__}: {str(e)[:100]}")
                    continue
                bad = None
                for gi in (0, 1):
                    sub, got = vals[gi::2], got_all[gi::2]
                    if op == "shift":
                        want = pd.Series(sub).shift(w).to_numpy()
                    elif op == "diff":
                        want = (pd.Series(sub) - pd.Series(sub).shift(w)).to_numpy()
                    else:
                        want = getattr(pd.Series(sub).rolling(w, min_periods=mp), op)().to_numpy()
                    for p in range(len(sub)):
                        a, b = got[p], want[p]
                        if (np.isnan(a) != np.isnan(b)) or (not np.isnan(a) and abs(a - b) > 1e-9 * max(1, abs(b))):
                            bad = f"group {gi} row {p}: expected {b} got {a}"
                            break
                    if bad:
                        break
                if bad:
                    res.fail("boundary", f"{tag}: {bad}")
        return res


def subspaces(tier, seed):
    q = tier == "quick"
    sp = []
    sp.append(SeqSpace(f"S1-seq-f8-len0to{6 if q else 7}", 0, 6 if q else 7, seed=seed))
    sp.append(SeqSpace(f"S1-seq-i8-len1to{5 if q else 6}", 1, 5 if q else 6, dtype="i8", seed=seed))
    Wd = WordSpace9
    if q:
        sp += [Wd("S2-f8-A3-n1to3", 3, 1, 3, seed=seed), Wd("S2-f8-A2-n4", 2, 4, 4, seed=seed)]
    else:
        sp += [Wd("S2-f8-A3-n1to4", 3, 1, 4, seed=seed), Wd("S2-f8-A2-n5", 2, 5, 5, seed=seed)]
    h = 3 if q else 4
    for vd in ("f4", "i8", "M8[ns]", "M8[us]", "M8[s]", "m8[ns]", "m8[us]"):
        sp.append(Wd(f"S3-{vd}-n1to{h}", 2, 1, h, vdtype=vd, seed=seed))
    sp.append(Wd(f"S4-f8-shuffled-index-n1to{h}", 2, 1, h, index="shuffled", seed=seed))
    sp.append(Wd(f"S4-f8-duplicate-index-n1to{h}", 2, 1, h, index="duplicates", seed=seed))
    sp.append(Wd(f"S4-f8-chunkwise-n1to{h}", 2, 1, h, rep="chunkwise", seed=seed))
    sp.append(Wd(f"S4-M8[ns]-chunkwise-n1to3", 2, 1, 3, vdtype="M8[ns]", rep="chunkwise", seed=seed))
    sp.append(BoundarySpace(tier, seed))
    sp.append(NarrowCodeSpace(tier, seed))
    return sp
