"""C11 - result labelling, order and shape are determined by the inputs."""
from __future__ import annotations

import itertools

import numpy as np
import pandas as pd

from .. import concrete as C
from .. import gbh
from .. import refmodel as R
from .. import sched
from .. import words as W
from ..engine import Result, Subspace
from .. import env

PROPERTY_ID = "C11"
TECHNIQUE = ("bounded exhaustive enumeration of key words (any first-appearance order, unused "
             "categories, 1-3 keys) x key names x value containers x sort x observed_only x mask, "
             "executed on the real GroupBy API against reference labelling rules; relational facet "
             "'column j of a multi-input result == the single-input result'")
RULE = ("case = one key word x key dtypes x naming pattern; every case runs value containers "
        "(ndarray, named/unnamed Series, list of 1-3, dict, DataFrame, 2-D array, polars frame) x "
        "sort x observed_only x {no mask, mask emptying the first row's group} x reductions; facets: "
        "index names, labels, order, Series-vs-DataFrame, name, columns, neutral values, column "
        "independence; non-trivial = >= 2 labels or an unobserved label")
ASSUMPTIONS = [
    "keys given as a mapping (unnamed arrays, or Series named differently) and as a frame: the mapping's keys name the levels",
    "n <= 4 rows (quick) / 5 (thorough) single key; n <= 3 two keys, n <= 2-3 three keys; G <= 3",
    "values are non-null and distinct per row (value semantics are C01's business)",
    "observed_only=False lists every label of the result index: all labels occurring in the keys "
    "(all categories for a categorical key; occurring combinations for several keys)",
]

OPS = ("sum", "min", "count", "size", "first", "mean")


def neutral(op, v, dts):
    if v is None:
        return True
    if op in ("sum", "count", "size") and v == 0:
        return True
    try:
        s = C.sentinel(np.dtype(dts))
    except TypeError:
        return False
    return s is not None and v == s


class LabelSpace(Subspace):
    shard = 20

    def __init__(self, name, G, lo, hi, kinds=("int",), naming="unnamed", seed=0, opnames=OPS,
                 containers=None, threshold=None):
        self.name = name
        self.threshold = threshold
        self.kinds, self.naming, self.seed, self.opnames = tuple(kinds), naming, seed, opnames
        self.containers = containers
        nk = len(kinds)
        alpha = [kt for kt in itertools.product(W.K(G), repeat=nk)
                 if all(gbh.key_can_null(kinds[j]) or kt[j] >= 0 for j in range(nk))]
        self.ws = W.WordSpace(alpha, lo, hi)
        self.warm_key = "lab"

    def size(self):
        return len(self.ws)

    def case(self, i):
        return dict(w=[list(kt) for kt in self.ws.at(i)], kinds=list(self.kinds), naming=self.naming,
                    seed=self.seed, ops=list(self.opnames), containers=self.containers,
                    threshold=self.threshold)

    def run(self, case):
        import polars as pl
        from groupby_lib import GroupBy

        res = Result()
        kts = [tuple(r) for r in case["w"]]
        n = len(kts)
        kinds, seed = case["kinds"], case["seed"]
        nk = len(kinds)
        naming = case["naming"]
        names = {"unnamed": [None] * nk, "named": [f"k{j}" for j in range(nk)],
                 "mixed": [f"k{j}" if j % 2 == 0 else None for j in range(nk)],
                 # keys given as a mapping / frame: the mapping's keys (column labels) name the levels,
                 # whatever the arrays inside are called
                 "dict": [f"d{j}" for j in range(nk)], "dict_renamed": [f"d{j}" for j in range(nk)],
                 "frame": [f"c{j}" for j in range(nk)]}[naming]
        inner = {"dict": [None] * nk, "dict_renamed": [f"inner{j}" for j in range(nk)],
                 "frame": [None] * nk}.get(naming, names)
        keys, labels = [], []
        for j, kind in enumerate(kinds):
            arr, lab = gbh.make_key([kt[j] for kt in kts], kind, seed + j, name=inner[j])
            keys.append(arr)
            labels.append(lab)
        keyarg = keys[0] if nk == 1 else keys
        if naming in ("dict", "dict_renamed"):
            keyarg = dict(zip(names, keys))
        elif naming == "frame":
            keyarg = pd.DataFrame(dict(zip(names, keys)))
        gids = [None if any(k < 0 for k in kt) else (kt if nk > 1 else kt[0]) for kt in kts]

        def lab_of(g):
            return labels[0][g] if nk == 1 else tuple(labels[j][g[j]] for j in range(nk))

        V, py = C.make_values([1] * n, "f8", seed)
        V2 = V * 2.0 + 1.0
        V3 = -V
        py2, py3 = [v * 2.0 + 1.0 for v in py], [-v for v in py]
        all_groups = list(dict.fromkeys(g for g in gids if g is not None))
        res.nontrivial = len(all_groups) >= 2
        # masks: none / reject every row of the first row's group
        masks = [None]
        if gids and gids[0] is not None and len(all_groups) >= 1:
            masks.append([0 if g == gids[0] else 1 for g in gids])
        containers = {
            "ndarray": (lambda: V, [py], "series", None, None),
            "series_named": (lambda: pd.Series(V, name="val"), [py], "series", "val", None),
            "series_unnamed": (lambda: pd.Series(V), [py], "series", None, None),
            "list1": (lambda: [V], [py], "frame", None, ["_arr_0"]),
            "list2": (lambda: [V, pd.Series(V2, name="w")], [py, py2], "frame", None, ["_arr_0", "w"]),
            "list3": (lambda: [V, V2, V3], [py, py2, py3], "frame", None, ["_arr_0", "_arr_1", "_arr_2"]),
            "dict": (lambda: {"b": V, "a": V2}, [py, py2], "frame", None, ["b", "a"]),
            "frame": (lambda: pd.DataFrame({"y": V, "x": V2}), [py, py2], "frame", None, ["y", "x"]),
            "array2d": (lambda: np.column_stack([V, V2]), [py, py2], "frame", None, ["_arr_0", "_arr_1"]),
            "plframe": (lambda: pl.DataFrame({"p": V, "q": V2}), [py, py2], "frame", None, ["p", "q"]),
            "plseries": (lambda: pl.Series("pv", V), [py], "series", "pv", None),
            # falsy but legitimate labels: the integer 0, the float 0.0, False
            "series_named_0": (lambda: pd.Series(V, name=0), [py], "series", 0, None),
            "frame_intcols": (lambda: pd.DataFrame(np.column_stack([V, V2])), [py, py2], "frame", None, ["0", "1"]),
            "dict_intkeys": (lambda: {1: V, 0: V2}, [py, py2], "frame", None, ["1", "0"]),
            "list_named_0": (lambda: [pd.Series(V2, name=0.0), pd.Series(V, name="z")], [py2, py], "frame",
                             None, ["0.0", "z"]),
        }
        use = case.get("containers") or list(containers)
        seams = env.seams()
        seams.set(executor=sched.NAMESPACE, threshold=case.get("threshold"))
        sched.set_schedule(sched.Schedule())
        catkey = nk == 1 and kinds[0].split("_")[0] == "cat"
        for mref in masks:
            Mobj = None if mref is None else np.array(mref, dtype=bool)
            rows = {}
            for i, g in enumerate(gids):
                if g is not None and (mref is None or mref[i]):
                    rows.setdefault(g, []).append(i)
            if not rows and mref is not None:
                continue
            for sort in (True, False):
                for obs_only in (True, False):
                    if obs_only:
                        listed = list(rows.keys())
                        listed_labels = None
                    else:
                        listed = list(all_groups)
                    order = gbh.expected_order(listed, gids, kinds if nk > 1 else kinds[0],
                                               labels if nk > 1 else labels[0], sort,
                                               bool_lenient=False)
                    exp_labels = [lab_of(g) for g in order]
                    if not obs_only and catkey:
                        # every category is a label, in category order
                        exp_labels = list(gbh.CAT_CATEGORIES)
                        order = [labels[0].index(l) if l in labels[0] else None for l in exp_labels]
                    boolkey = nk == 1 and kinds[0] == "bool"
                    if not obs_only and boolkey:
                        # both labels exist whatever the data (like categories)
                        extra = [l for l in (False, True) if l not in exp_labels]
                        exp_labels = exp_labels + extra if not sort else sorted(exp_labels + extra)
                        order = [labels[0].index(l) for l in exp_labels]
                        order = [g if g in all_groups else None for g in order]
                    for cname in use:
                        mk, pys, shape, exp_name, exp_cols = containers[cname]
                        for op in case["ops"]:
                            if op == "size" and cname != "ndarray":
                                continue
                            res.execs += 1
                            tag = f"{op} values={cname} sort={sort} observed_only={obs_only} mask={'none' if mref is None else ''.join(map(str, mref))}"

                            def call():
                                g = GroupBy(keyarg, sort=sort)
                                if op == "size":
                                    return g.size(mask=Mobj, observed_only=obs_only)
                                return getattr(g, op)(mk(), mask=Mobj, observed_only=obs_only)

                            o = gbh.call(call)
                            if o.raised:
                                res.fail("total", f"{tag}: raised {o.raised}")
                                continue
                            if list(o.names) != list(names):
                                res.fail("index-names", f"{tag}: index names {o.names} expected {names}")
                            if set(o.labels) != set(exp_labels) or len(o.labels) != len(exp_labels):
                                res.fail("labels", f"{tag}: labels {o.labels} expected {exp_labels}")
                                continue
                            if o.labels != exp_labels:
                                res.fail("order", f"{tag}: label order {o.labels} expected {exp_labels}")
                            if op == "size":
                                shape_, exp_name_, exp_cols_ = "series", None, None
                            else:
                                shape_, exp_name_, exp_cols_ = shape, exp_name, exp_cols
                            if o.kind != shape_:
                                res.fail("shape", f"{tag}: result is a {o.kind}, expected a {shape_}")
                                continue
                            if shape_ == "series" and o.name != exp_name_:
                                res.fail("name", f"{tag}: Series name {o.name!r} expected {exp_name_!r}")
                            if shape_ == "frame" and [str(c) for c in o.columns] != exp_cols_:
                                res.fail("columns", f"{tag}: columns {o.columns} expected {exp_cols_}")
                                continue
                            # values: per column the single-input definition (column independence)
                            cols = list(o.values)
                            for ci, col in enumerate(cols):
                                p = pys[ci] if op != "size" else py
                                got = dict(zip(o.labels, o.values[col]))
                                dts = o.dtypes[col]
                                for g, lab in zip(order, exp_labels):
                                    if g is None or g not in rows:
                                        if not neutral(op, got[lab], dts):
                                            res.fail("neutral", f"{tag}: unobserved label {lab} has {got[lab]}")
                                            break
                                        continue
                                    ev = R.reduce_values(op, [p[i] for i in rows[g]])
                                    if not gbh.veq(ev, got[lab]):
                                        res.fail("column-independence",
                                                 f"{tag}: column {col} label {lab}: expected {ev} got {got[lab]}")
                                        break
        seams.reset()
        return res


def subspaces(tier, seed):
    q = tier == "quick"
    S = LabelSpace
    sp = []
    h = 4 if q else 5
    few = ["ndarray", "series_named", "list2", "dict", "series_named_0", "frame_intcols"]
    sp.append(S(f"int-unnamed-n1to{h}", 3, 1, h, seed=seed, containers=few if q else None))
    sp.append(S("int-named-allcontainers-n1to3", 3, 1, 3, naming="named", seed=seed))
    for kk in ("float", "str_obj", "cat", "bool", "dt_ns"):
        G = 2 if kk == "bool" else 3
        sp.append(S(f"{kk}-named-n1to3", G, 1, 3, kinds=(kk,), naming="named", seed=seed,
                    containers=few))
    # chunk-wise factorisation (per-chunk dictionaries, sorted-prefix fast path) must list the
    # labels in the same order
    hc = 4 if q else 5
    sp.append(S(f"int-chunkwise-n1to{hc}", 3, 1, hc, threshold=1, seed=seed,
                containers=["ndarray", "list2"], opnames=("sum", "count", "first")))
    sp.append(S(f"float-chunkwise-named-n1to{hc}", 3, 1, hc, kinds=("float",), naming="named", threshold=1,
                seed=seed, containers=["series_named"], opnames=("sum", "size")))
    sp.append(S(f"int-G4-chunkwise-n4to{hc}", 4, 4, hc, threshold=1, seed=seed,
                containers=["ndarray"], opnames=("sum",)))
    sp.append(S("str-chunkwise-n1to3", 3, 1, 3, kinds=("str_obj",), threshold=1, seed=seed,
                containers=["ndarray"], opnames=("sum", "min")))
    sp.append(S("two-keys-mixed-n1to3", 2, 1, 3, kinds=("int", "str_obj"), naming="mixed", seed=seed,
                containers=few))
    sp.append(S("two-keys-float+cat-named-n1to3", 2, 1, 3 if not q else 2, kinds=("float", "cat"),
                naming="named", seed=seed, containers=few))
    sp.append(S("three-keys-mixed-n1to2", 2, 1, 2, kinds=("int", "str_obj", "float"), naming="mixed",
                seed=seed, containers=few))
    # keys given as a mapping or a frame
    for nm in ("dict", "dict_renamed", "frame"):
        sp.append(S(f"two-keys-{nm}-n1to2", 2, 1, 2, kinds=("int", "str_obj"), naming=nm, seed=seed,
                    containers=["ndarray", "list2"], opnames=("sum", "size", "first")))
        sp.append(S(f"one-key-{nm}-n1to3", 3, 1, 3, kinds=("float",), naming=nm, seed=seed,
                    containers=["ndarray"], opnames=("sum", "size")))
    sp.append(S("three-keys-dict-n1to2", 2, 1, 2, kinds=("int", "str_obj", "float"), naming="dict", seed=seed,
                containers=["ndarray"], opnames=("sum", "count")))
    if not q:
        sp.append(S("three-keys-unnamed-n3", 2, 3, 3, kinds=("int", "str_obj", "int"), seed=seed,
                    containers=["ndarray", "list2"], opnames=("sum", "count")))
        sp.append(S("two-keys-allcontainers-n1to3", 2, 1, 3, kinds=("int", "str_obj"), naming="named",
                    seed=seed))
    return sp
