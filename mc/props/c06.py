"""C06 - rows with a null key never influence any group (differential: delete them)."""
from __future__ import annotations

import numpy as np

from .. import concrete as C
from .. import gbh
from .. import ops as O
from .. import sched
from .. import words as W
from ..engine import Result, Subspace
from .. import env
from .c01 import row_alphabet

PROPERTY_ID = "C06"
TECHNIQUE = ("bounded exhaustive enumeration of row words containing null keys; differential "
             "oracle on the real implementation: result(input) vs result(input with the null-key "
             "rows deleted), for every operation of the catalogue")
RULE = ("case = one word over rows (key tuple with null in any position, value null/non-null) x key "
        "dtypes x key representation (contiguous / chunk-wise); every case with >= 1 null-key row "
        "runs every catalogue operation twice (full input, null-key rows deleted); non-trivial = "
        "contains a null-key row and a non-null-key row")
ASSUMPTIONS = [
    "n <= 4 rows (quick) / 5 (thorough), G <= 3 labels, 1-3 keys",
    "operations are run with fixed small arguments (window 2-3, alpha 0.5, halflife 1.5, n in 0..2)",
    "marker at null-key rows: must be one constant per operation inside a case and one of "
    "{null, 0, dtype sentinel}",
]

NEUTRAL_OK = (None, 0, 0.0, False)


def _neutral(v, dts):
    if v is None:
        return True
    if isinstance(v, tuple):
        return all(_neutral(x, dts) for x in v)
    if v in (0, 0.0, False, -1):
        return True
    try:
        s = C.sentinel(np.dtype(dts))
    except TypeError:
        return False
    return s is not None and v == s


class NullKeySpace(Subspace):
    shard = 40

    def __init__(self, name, G, lo, hi, keys=("float",), vdtype="f8", threshold=None, fanout=None,
                 opnames=None, seed=0, with_mask=False):
        self.name = name
        self.with_mask = with_mask
        self.keys, self.vdtype = tuple(keys), vdtype
        self.threshold, self.fanout, self.seed = threshold, fanout, seed
        alpha = row_alphabet(G, len(keys), [gbh.key_can_null(k) for k in keys],
                             C.can_null(vdtype), with_mask)
        if with_mask:
            # null-key rows in both mask states (a rejected null-key row must not matter either)
            alpha = alpha + [(kt, 1, 0) for (kt, x, m) in alpha if any(k < 0 for k in kt)]
        self.ws = W.WordSpace(alpha, lo, hi)
        self.opnames = opnames
        self.warm_key = f"{vdtype}-{threshold}"

    def size(self):
        return len(self.ws)

    def warm_indices(self, n):
        return (0, n // 3, n // 2, n - 1)

    def case(self, i):
        return dict(w=[[list(r[0])] + list(r[1:]) for r in self.ws.at(i)], keys=list(self.keys),
                    vdtype=self.vdtype, threshold=self.threshold, fanout=self.fanout,
                    ops=self.opnames, seed=self.seed)

    def run(self, case):
        from groupby_lib import GroupBy

        res = Result()
        d = gbh.Data(case["w"], case["keys"], case["vdtype"], case["seed"])
        nullrows = [i for i, g in enumerate(d.gids) if g is None]
        keep = [i for i, g in enumerate(d.gids) if g is not None]
        if not nullrows:
            return res  # nothing to delete: trivially equal, not executed
        res.nontrivial = bool(keep)
        dd = d.take(keep)
        vkind = d.V.dtype.kind
        mref = list(d.ms) if d.ms is not None else None
        opnames = case.get("ops") or O.names(mask_kind="bool" if mref else "none", vkind=vkind,
                                             exclude=("sum_obsF",) if mref else ())
        seams = env.seams()
        seams.set(executor=sched.NAMESPACE, threshold=case.get("threshold"),
                  fanout=case.get("fanout"))
        sched.set_schedule(sched.Schedule())
        cf = d.ctx(mref)
        cd = dd.ctx(None if mref is None else [mref[i] for i in keep])
        constrained = [i for i in keep if mref is None or mref[i]]
        rank = {p: j for j, p in enumerate(keep)}
        for name in opnames:
            op = O.OPS[name]
            if vkind not in op.vkinds:
                continue
            res.execs += 2
            of = gbh.call(lambda: op.fn(GroupBy(d.keyarg), cf))
            od = gbh.call(lambda: op.fn(GroupBy(dd.keyarg), cd))
            if not keep and (of.raised or od.raised):
                # every key is null: nothing is selected.  Required: no exception on the full input
                if of.raised:
                    res.fail("total", f"{name}: all keys null: raised {of.raised}")
                continue
            if of.raised or od.raised:
                if od.raised and of.raised:
                    continue  # operation not applicable to this input at all (both reject)
                if of.raised:
                    res.fail("total", f"{name}: raised {of.raised} (fine without the null-key rows)")
                else:
                    res.fail("total", f"{name}: returned, but raises without the null-key rows: "
                                      f"{od.raised}")
                continue
            if any(lab is None or (isinstance(lab, tuple) and None in lab) for lab in of.labels) \
                    and op.kind in ("reduce",):
                res.fail("labels", f"{name}: null label in {of.labels}")
                continue
            if op.kind == "reduce":
                bad = gbh.same_mapping(of, od, ordered=True)
                if bad:
                    res.fail("reduce", f"{name}: {bad}")
            elif op.kind == "aligned":
                if len(of.labels) != d.n:
                    res.fail("aligned", f"{name}: {len(of.labels)} rows out for {d.n} rows in")
                    continue
                tf, td = gbh.table(of), gbh.table(od)
                lf, ld = of.labels, od.labels
                bad = None
                for i in constrained:
                    a, b = tf[lf[i]], td[ld[rank[i]]]
                    if not gbh.veq(a, b):
                        bad = f"row {i}: {a} vs {b} after deleting null-key rows"
                        break
                if bad:
                    res.fail("aligned", f"{name}: {bad}")
                    continue
                marks = {tf[lf[i]] for i in nullrows}
                dts = next(iter(of.dtypes.values()))
                if len(marks) > 1:
                    res.fail("marker", f"{name}: null-key rows receive different values {sorted(map(str, marks))}")
                elif not all(_neutral(m, dts) for m in marks):
                    res.fail("marker", f"{name}: null-key rows receive {sorted(map(str, marks))}")
            elif op.kind in ("gsorted", "select"):
                if mref is not None and op.kind == "gsorted":
                    # only selected rows are constrained (EMA lists rejected rows too)
                    for o_ in (of, od):
                        kp = [j for j, lab in enumerate(o_.labels) if mref[lab[-1]]]
                        o_.labels = [o_.labels[j] for j in kp]
                        o_.values = {c: [v[j] for j in kp] for c, v in o_.values.items()}
                bad = gbh.same_mapping(of, od, ordered=True)
                if bad:
                    res.fail(op.kind, f"{name}: {bad}")
            else:  # misc
                if of.kind == "dict":
                    # positions refer to the input rows: map the reduced run back
                    back = {lab: tuple(keep[p] for p in v)
                            for lab, v in zip(od.labels, od.values["dict"])}
                    full = dict(zip(of.labels, of.values["dict"]))
                    if full != back:
                        res.fail("misc", f"{name}: {full} vs {back}")
                else:
                    bad = gbh.same_mapping(of, od)
                    if bad:
                        res.fail("misc", f"{name}: {bad}")
        seams.reset()
        return res


def subspaces(tier, seed):
    q = tier == "quick"
    S = NullKeySpace
    sp = []
    if q:
        sp += [S("float-f8-contig-A3-n1to3", 3, 1, 3, seed=seed),
               S("float-f8-contig-A2-n4", 2, 4, 4, seed=seed),
               S("float-f8-chunkwise-A3-n1to3", 3, 1, 3, threshold=1, seed=seed),
               S("float-f8-chunkwise-A2-n4", 2, 4, 4, threshold=1, seed=seed),
               S("float-f8-chunkwise-fanout2-n1to3", 3, 1, 3, threshold=1, fanout=2, seed=seed)]
    else:
        sp += [S("float-f8-contig-n1to5", 3, 1, 5, seed=seed),
               S("float-f8-chunkwise-n1to5", 3, 1, 5, threshold=1, seed=seed),
               S("float-f8-chunkwise-fanout2-n1to4", 3, 1, 4, threshold=1, fanout=2, seed=seed),
               S("float-f8-chunkwise-fanout3-n1to4", 3, 1, 4, threshold=1, fanout=3, seed=seed)]
    hm = 3 if q else 4
    sp.append(S(f"masked-float-f8-contig-n1to{hm}", 2, 1, hm, with_mask=True, seed=seed))
    sp.append(S(f"masked-float-f8-chunkwise-n1to{hm}", 2, 1, hm, threshold=1, with_mask=True, seed=seed))
    sp.append(S("masked-float+str-f8-n1to2", 2, 1, 2, keys=("float", "str_obj"), with_mask=True,
                seed=seed))
    hk = 3 if q else 4
    for kk in ("str_obj", "dt_ns", "cat"):
        sp.append(S(f"{kk}-f8-contig-n1to{hk}", 2 if q else 3, 1, hk, keys=(kk,), seed=seed))
    sp.append(S(f"str_obj-f8-chunkwise-n1to{hk}", 2 if q else 3, 1, hk, keys=("str_obj",),
                threshold=1, seed=seed))
    mk = 2 if q else 3
    sp.append(S(f"float+str-f8-n1to{mk}", 2, 1, mk, keys=("float", "str_obj"), seed=seed))
    sp.append(S(f"int+float-f8-n1to{mk}", 2, 1, mk, keys=("int", "float"), seed=seed))
    sp.append(S(f"float+int-f8-n1to{mk}", 2, 1, mk, keys=("float", "int"), seed=seed))
    sp.append(S("str+float+cat-f8-n1to2", 2, 1, 2, keys=("str_obj", "float", "cat"), seed=seed))
    sub = ["sum", "first", "size", "sum_t", "cumsum", "rolling_max", "shift", "ema_alpha", "head1",
           "nth_m1", "groups", "median", "apply_two"]
    if not q:
        sp.append(S("float+str-f8-n4-subset", 2, 4, 4, keys=("float", "str_obj"),
                    opnames=sub, seed=seed))
    for vd in ("i8", "M8[ns]") + (() if q else ("f4", "m8[ns]", "i4", "b")):
        sp.append(S(f"float-{vd}-contig-n1to3", 2, 1, 3, vdtype=vd, seed=seed))
        sp.append(S(f"float-{vd}-chunkwise-n1to3", 2, 1, 3, vdtype=vd, threshold=1, seed=seed))
    return sp
