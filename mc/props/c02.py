"""C02 - factorisation is a faithful partition of the rows (relation, no expected codes)."""
from __future__ import annotations

import itertools

import numpy as np
import pandas as pd

from .. import concrete as C
from .. import gbh
from .. import sched
from .. import words as W
from ..engine import Result, Subspace
from .. import env

PROPERTY_ID = "C02"
TECHNIQUE = ("bounded exhaustive enumeration of key words (nulls in every key position) x every "
             "factorisation route, checked against the defining relation between keys, codes, "
             "labels and the derived views (groups, sizes) on the real implementation")
RULE = ("case = one key word (tuples over {null,0..G-1} per key) x route (plain, categorical, bool, "
        "RangeIndex, Arrow array / chunked array with every composition / polars / pandas-Arrow, "
        "chunk-wise with fan-out 2-4, monotonic prefix, bare factorize functions) x sort; every view "
        "is taken from a fresh object; non-trivial = >= 2 rows and (>= 2 labels or a null)")
ASSUMPTIONS = [
    'key dtypes also: int32 / uint8, float32, timedelta64[ns, s], tz-aware datetimes, fixed-width and byte strings, pandas nullable Int64 / Float64 / boolean holding pd.NA (plain and chunk-wise routes)',
    "n <= 6 rows single key (quick) / 7-8 (thorough); n <= 4 for two keys, n <= 3 for three keys",
    "labels from fixed tables per dtype (first-appearance, sorted and code order all differ)",
    "Arrow-backed containers use Arrow nulls (a float NaN inside an Arrow array is an ordinary "
    "value there and is not generated)",
    "the uint32 code width of the monotonic path (> 4e9 labels) is out of reach",
]


def _codes_global(g):
    """global code per row from the object's own state (chunk-local codes through its pointers)"""
    import pyarrow as pa

    ik = g.group_ikey
    if isinstance(ik, pa.ChunkedArray):
        chunks = [np.asarray(c.to_numpy(zero_copy_only=False)) for c in ik.chunks]
        if not hasattr(g, "_group_key_pointers"):
            # the per-chunk dictionaries were refactored away: chunk-local codes cannot be
            # interpreted from outside any more - a harness binding problem, never a verdict
            raise env.BindingBroken("GroupBy._group_key_pointers")
        ptrs = g._group_key_pointers
        out = []
        for j, c in enumerate(chunks):
            c = c.astype("i8")
            if ptrs is not None:
                p = np.asarray(ptrs[j])
                c = np.where(c < 0, -1, p[np.maximum(c, 0)] if len(p) else c)
            out.append(c)
        return np.concatenate(out) if out else np.empty(0, dtype="i8")
    return np.asarray(ik).astype("i8")


def check_relation(res, tag, keylabels, codes, labels):
    """keylabels: per row the normalised key (None if null); codes: ints; labels: list"""
    n = len(keylabels)
    if len(codes) != n:
        res.fail("codes", f"{tag}: {len(codes)} codes for {n} rows")
        return
    if len(set(labels)) != len(labels):
        res.fail("labels", f"{tag}: labels not distinct: {labels}")
    if any(l is None or (isinstance(l, tuple) and None in l) for l in labels):
        res.fail("labels", f"{tag}: null label in {labels}")
    for i in range(n):
        c = int(codes[i])
        if keylabels[i] is None:
            if c >= 0:
                res.fail("nullcode", f"{tag}: row {i} has a null key but code {c} "
                                     f"(label {labels[c] if c < len(labels) else '?'})")
                return
        else:
            if c < 0 or c >= len(labels):
                res.fail("codes", f"{tag}: row {i} key {keylabels[i]} has code {c}")
                return
            if labels[c] != keylabels[i]:
                res.fail("codes", f"{tag}: row {i} key {keylabels[i]} -> label {labels[c]}")
                return


ARROW_ROUTES = ("pa_array", "pa_chunked", "polars", "pd_arrow")


def to_route(arr_py, kind, route, comp=None):
    """python list of labels (None = null) -> container for an Arrow route"""
    import pyarrow as pa
    import polars as pl

    base = kind.split("_")[0]
    typ = {"float": pa.float64(), "int": pa.int64(), "str": pa.string(), "bool": pa.bool_(),
           "dt": pa.timestamp("ns")}[base]
    if route == "pa_array":
        return pa.array(arr_py, type=typ)
    if route == "pa_chunked":
        cuts = np.cumsum(comp)[:-1]
        parts, a = [], 0
        for c in comp:
            parts.append(pa.array(arr_py[a:a + c], type=typ))
            a += c
        return pa.chunked_array(parts, type=typ)
    if route == "polars":
        return pl.Series("k", pa.array(arr_py, type=typ))
    if route == "pd_arrow":
        return pd.Series(pa.array(arr_py, type=typ), dtype=pd.ArrowDtype(typ))
    raise ValueError(route)


class KeySpace(Subspace):
    shard = 100

    def __init__(self, name, G, lo, hi, kinds=("float",), route="plain", fanout=None, seed=0,
                 sorts=(True, False)):
        self.name = name
        self.kinds, self.route, self.fanout, self.seed, self.sorts = tuple(kinds), route, fanout, seed, sorts
        nk = len(kinds)
        alpha = []
        for kt in itertools.product(W.K(G), repeat=nk):
            if all(gbh.key_can_null(kinds[j]) or route in ARROW_ROUTES or kt[j] >= 0
                   for j in range(nk)):
                alpha.append(kt)
        if route in ARROW_ROUTES and kinds[0].split("_")[0] in ("int", "bool"):
            pass  # Arrow ints/bools can be null
        self.ws = W.WordSpace(alpha, lo, hi)
        self.warm_key = f"{route}"

    def size(self):
        return len(self.ws)

    def case(self, i):
        return dict(w=[list(kt) for kt in self.ws.at(i)], kinds=list(self.kinds), route=self.route,
                    fanout=self.fanout, seed=self.seed, sorts=list(self.sorts))

    def run(self, case):
        from groupby_lib import GroupBy
        import groupby_lib.groupby.factorization as F

        res = Result()
        kts = [tuple(r) for r in case["w"]]
        n = len(kts)
        kinds, route, seed = case["kinds"], case["route"], case["seed"]
        nk = len(kinds)
        seams = env.seams()
        seams.set(executor=sched.NAMESPACE,
                  threshold=1 if route == "chunkwise" else None, fanout=case.get("fanout"))
        sched.set_schedule(sched.Schedule())
        # concrete keys + normalised key label per row
        labels_tab = [gbh.label_table(k, seed + j) for j, k in enumerate(kinds)]
        normtab = []
        for j, k in enumerate(kinds):
            if k.split("_")[0] in ("dt", "td"):
                normtab.append([int(v) * 10**9 for v in labels_tab[j]])
            elif k == "str_S":
                normtab.append([v.encode() for v in labels_tab[j]])
            else:
                normtab.append(list(labels_tab[j]))
        keylab = []
        for kt in kts:
            if any(k < 0 for k in kt):
                keylab.append(None)
            else:
                lab = tuple(normtab[j][kt[j]] for j in range(nk))
                keylab.append(lab if nk > 1 else lab[0])
        present = {l for l in keylab if l is not None}
        res.nontrivial = n >= 2 and (len(present) >= 2 or None in keylab)

        variants = []  # (tag, key argument factory)
        if route in ("plain", "chunkwise"):
            def mk():
                objs = [gbh.make_key([kt[j] for kt in kts], kinds[j], seed + j)[0] for j in range(nk)]
                return objs[0] if nk == 1 else objs
            variants.append((route, mk))
        elif route in ARROW_ROUTES:
            base = kinds[0].split("_")[0]
            if base == "dt":
                py = [None if kt[0] < 0 else pd.Timestamp(labels_tab[0][kt[0]], unit="s") for kt in kts]
            else:
                py = [None if kt[0] < 0 else labels_tab[0][kt[0]] for kt in kts]
            if route == "pa_chunked":
                # every composition into <= 3 chunks, empty chunks (first, middle, last) included
                for comp in W.compositions(n, 3, 1, True):
                    variants.append((f"pa_chunked{comp}", lambda comp=comp: to_route(py, kinds[0], route, comp)))
            else:
                variants.append((route, lambda: to_route(py, kinds[0], route)))
        elif route == "range":
            pass
        elif route == "funcs":
            pass
        else:
            raise ValueError(route)

        if route == "funcs":
            self._bare_functions(res, F, kts, kinds, seed, keylab, nk)
            seams.reset()
            return res

        for tag0, mk in variants:
            for sort in case["sorts"]:
                tag = f"{tag0} sort={sort}"
                res.execs += 1

                def views():
                    g = GroupBy(mk(), sort=sort)
                    codes = _codes_global(g)
                    labels = gbh.norm_labels(g.result_index)
                    ng = g.ngroups
                    groups = GroupBy(mk(), sort=sort).groups
                    kc = GroupBy(mk(), sort=sort).key_count
                    size = GroupBy(mk(), sort=sort).size()
                    size_t = GroupBy(mk(), sort=sort).size(transform=True)
                    return codes, labels, ng, groups, kc, size, size_t

                try:
                    import io, contextlib
                    with contextlib.redirect_stdout(io.StringIO()):
                        codes, labels, ng, groups, kc, size, size_t = views()
                except env.BindingBroken:
                    raise
                except Exception as e:  # noqa
                    res.fail("total", f"{tag}: raised {type(e).__name__}: {str(e)[:140]}")
                    continue
                check_relation(res, tag, keylab, codes, labels)
                if ng != len(labels):
                    res.fail("views", f"{tag}: ngroups {ng} != {len(labels)} labels")
                # groups: label -> ascending positions; partition of the non-null-key rows
                exp_groups = {}
                for i, l in enumerate(keylab):
                    if l is not None:
                        exp_groups.setdefault(l, []).append(i)
                got_groups = {gbh.norm_any(k) if not isinstance(k, tuple)
                              else tuple(gbh.norm_any(x) for x in k): [int(p) for p in v]
                              for k, v in groups.items()}
                if got_groups != exp_groups:
                    res.fail("groups", f"{tag}: groups {got_groups} expected {exp_groups}")
                exp_sizes = {l: len(p) for l, p in exp_groups.items()}
                ksz = dict(zip(gbh.norm_labels(kc.index), [int(v) for v in kc.tolist()]))
                if {l: v for l, v in ksz.items() if v} != exp_sizes:
                    res.fail("sizes", f"{tag}: key_count {ksz} expected {exp_sizes}")
                ssz = dict(zip(gbh.norm_labels(size.index), [int(v) for v in size.tolist()]))
                if ssz != exp_sizes:
                    res.fail("sizes", f"{tag}: size() {ssz} expected {exp_sizes}")
                st = [int(v) for v in np.asarray(size_t).tolist()]
                bad = [i for i, l in enumerate(keylab) if l is not None and st[i] != exp_sizes[l]]
                if len(st) != n or bad:
                    res.fail("sizes", f"{tag}: size(transform=True) {st} for keys {keylab}")
        seams.reset()
        return res

    def _bare_functions(self, res, F, kts, kinds, seed, keylab, nk):
        n = len(kts)
        objs = [gbh.make_key([kt[j] for kt in kts], kinds[j], seed + j)[0] for j in range(nk)]
        if nk == 1:
            for sort in (False, True):
                res.execs += 1
                try:
                    codes, uniques = F.factorize_1d(objs[0], sort=sort)
                    labels = gbh.norm_labels(pd.Index(uniques))
                except Exception as e:  # noqa
                    res.fail("total", f"factorize_1d sort={sort}: raised {type(e).__name__}: {str(e)[:120]}")
                    continue
                check_relation(res, f"factorize_1d sort={sort}", keylab, np.asarray(codes), labels)
                if sort and kinds[0].split("_")[0] not in ("cat", "bool"):
                    if labels != sorted(labels):
                        res.fail("order", f"factorize_1d sort=True: labels {labels} not sorted")
            base = kinds[0].split("_")[0]
            if base in ("float", "int", "dt") and n:
                res.execs += 1
                try:
                    cutoff, codes, uniques = F.monotonic_factorization(objs[0])
                    labels = gbh.norm_labels(pd.Index(uniques))
                    check_relation(res, "monotonic_factorization prefix", keylab[:cutoff],
                                   np.asarray(codes)[:cutoff], labels)
                    # the prefix must really be the longest non-decreasing null-free prefix
                    exp = 0
                    for i in range(n):
                        if keylab[i] is None or (i and keylab[i] < keylab[i - 1]):
                            break
                        exp = i + 1
                    if cutoff != exp:
                        res.fail("monotonic", f"monotonic_factorization cutoff {cutoff} expected {exp}")
                except Exception as e:  # noqa
                    res.fail("total", f"monotonic_factorization: raised {type(e).__name__}: {str(e)[:120]}")
        else:
            for sort in (False, True):
                res.execs += 1
                try:
                    codes, mi = F.factorize_2d(*objs, sort=sort)
                    labels = gbh.norm_labels(mi)
                except Exception as e:  # noqa
                    res.fail("total", f"factorize_2d sort={sort}: raised {type(e).__name__}: {str(e)[:120]}")
                    continue
                check_relation(res, f"factorize_2d sort={sort}", keylab, np.asarray(codes), labels)


class RangeSpace(Subspace):
    shard = 50

    def __init__(self, seed=0):
        self.name = "rangeindex"
        self.cases = [(a, b, s) for a in (-2, 0, 3) for s in (1, 2, 3, -1, -2)
                      for b in range(a - 7, a + 8) if len(range(a, b, s)) <= 5]

    def size(self):
        return len(self.cases)

    def case(self, i):
        a, b, s = self.cases[i]
        return dict(start=a, stop=b, step=s)

    def run(self, case):
        from groupby_lib import GroupBy

        res = Result()
        ri = pd.RangeIndex(case["start"], case["stop"], case["step"])
        keylab = [int(v) for v in ri]
        res.nontrivial = len(keylab) >= 2
        res.execs += 1
        try:
            g = GroupBy(ri)
            codes = _codes_global(g)
            labels = gbh.norm_labels(g.result_index)
            check_relation(res, f"RangeIndex{tuple(case.values())}", keylab, codes, labels)
            sz = GroupBy(ri).size()
            if [int(v) for v in sz.tolist()] != [1] * len(keylab):
                res.fail("sizes", f"RangeIndex{tuple(case.values())}: size {sz.tolist()}")
        except Exception as e:  # noqa
            res.fail("total", f"RangeIndex{tuple(case.values())}: raised {type(e).__name__}: {str(e)[:100]}")
        return res


def subspaces(tier, seed):
    q = tier == "quick"
    S = KeySpace
    sp = []
    L = 6 if q else 7
    sp.append(S(f"plain-float-n0to{L}", 3, 0, L, seed=seed))
    sp.append(S(f"chunkwise-float-n1to{L}", 3, 1, L, route="chunkwise", seed=seed))
    for F_ in (2, 3):
        sp.append(S(f"chunkwise-fanout{F_}-float-n1to{L-1}", 3, 1, L - 1, route="chunkwise",
                    fanout=F_, seed=seed))
    hk = 4 if q else 5
    for kk in ("int", "str_obj", "str_series", "bool", "dt_ns", "dt_us", "cat"):
        G = 2 if kk == "bool" else 3
        sp.append(S(f"plain-{kk}-n1to{hk}", G, 1, hk, kinds=(kk,), seed=seed))
        if kk != "cat":
            sp.append(S(f"chunkwise-{kk}-n1to{hk}", G, 1, hk, kinds=(kk,), route="chunkwise", seed=seed))
    # further key dtypes: narrow / unsigned ints, float32, timedeltas, tz-aware datetimes, fixed-width and
    # byte strings, pandas' nullable (masked) ints / floats / booleans holding pd.NA
    hx = 3 if q else 4
    for kk in ("int_i4", "int_u1", "float_f4", "td_ns", "td_s", "dt_ns_tz", "str_U", "str_S", "int_I64",
               "float_F64", "bool_na"):
        G = 2 if kk.startswith("bool") else 3
        sp.append(S(f"plain-{kk}-n1to{hx}", G, 1, hx, kinds=(kk,), seed=seed))
        sp.append(S(f"chunkwise-{kk}-n1to{hx}", G, 1, hx, kinds=(kk,), route="chunkwise", seed=seed))
    if not q:
        sp.append(S("plain-float-G4-n1to6", 4, 1, 6, seed=seed))
        sp.append(S("chunkwise-float-n8", 3, 8, 8, route="chunkwise", sorts=(True,), seed=seed))
    h2 = 3 if q else 4
    sp.append(S(f"two-keys-float+str-n1to{h2}", 2, 1, h2, kinds=("float", "str_obj"), seed=seed))
    sp.append(S(f"two-keys-cat+float-n1to{h2}", 2, 1, h2, kinds=("cat", "float"), seed=seed))
    sp.append(S(f"two-keys-int+dt-n1to{h2}", 2, 1, h2, kinds=("int", "dt_ns"), seed=seed))
    sp.append(S(f"three-keys-n1to{2 if q else 3}", 2, 1, 2 if q else 3,
                kinds=("float", "str_obj", "float"), seed=seed))
    if not q:
        sp.append(S("two-keys-G3xG3-n1to3", 3, 1, 3, kinds=("float", "float"), seed=seed))
    ha = 4 if q else 5
    for route in ARROW_ROUTES:
        sp.append(S(f"arrow-{route}-float-n1to{ha}", 3, 1, ha, route=route, seed=seed))
    for kk in ("int", "str_obj", "dt_ns"):
        for route in ("pa_array", "pa_chunked", "polars"):
            sp.append(S(f"arrow-{route}-{kk}-n1to3", 2, 1, 3, kinds=(kk,), route=route, seed=seed))
    sp.append(RangeSpace(seed))
    sp.append(S(f"funcs-float-n0to{L}", 3, 0, L, route="funcs", seed=seed))
    for kk in ("int", "str_obj", "dt_ns", "cat", "bool"):
        sp.append(S(f"funcs-{kk}-n1to4", 2 if kk == "bool" else 3, 1, 4, kinds=(kk,), route="funcs",
                    seed=seed))
    sp.append(S("funcs-two-keys-n1to3", 2, 1, 3, kinds=("float", "str_obj"), route="funcs", seed=seed))
    sp.append(S("funcs-three-keys-n1to2", 2, 1, 2, kinds=("float", "str_obj", "int"), route="funcs",
                seed=seed))
    return sp
