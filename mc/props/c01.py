"""C01 - group reductions equal the per-group definition (public GroupBy API)."""
from __future__ import annotations

import itertools

import numpy as np
import pandas as pd

from .. import concrete as C
from .. import gbh
from .. import refmodel as R
from .. import sched
from .. import words as W
from ..engine import Result, Subspace
from .. import env

PROPERTY_ID = "C01"
TECHNIQUE = ("bounded exhaustive enumeration of row-symbol words (keys x null pattern x mask) "
             "executed on the real GroupBy API against a pure-Python reference model")
RULE = ("case = one word over rows (key tuple incl. null, value null/non-null, mask bit) x one "
        "configuration (key dtypes, value dtype, mask kind, sort); every case runs the 8 reductions "
        "on fresh GroupBy objects; facets: total (no exception), labels, order, values, dtype; "
        "non-trivial = >=2 rows and (>=2 groups or a null key/value or a rejected row)")
ASSUMPTIONS = [
    'key dtypes also: timedelta, tz-aware datetime, nullable Int64 / boolean with pd.NA, float32, byte strings, uint8; narrow / unsigned / bool values on chunk-wise keys under a boolean mask',
    "boundary family 'long-groups': two interleaved groups of S and S+3 rows, S around 127/128, 255/256 (quick) plus 32767/32768, 65535/65536 (thorough: all), keys with int8 / int16 group codes (small categoricals, bool, 200 categories) and int keys, values f8 / int8 / uint8 / bool, no mask and a periodic mask",
    "n <= 4 rows (quick) / 5-6 rows (thorough); G <= 3 labels per key; 1-3 keys",
    "dtype/mask-kind dimensions are crossed with the word space one at a time (plus key x value "
    "dtype pairs on short words), not as a full product",
    "values come from the position table (signed powers of two) so sums are exact",
    "integer/bool values carry no null symbol (plain integers cannot be null)",
]

OPS = ("size", "count", "sum", "mean", "min", "max", "first", "last")


def ops_for(vdtype):
    k = np.dtype(C._np_name(vdtype)).kind
    if k == "M":
        return ("size", "count", "min", "max", "first", "last")
    if k == "m":
        return ("size", "count", "sum", "min", "max", "first", "last")
    return OPS


def row_alphabet(G, nk, key_nullable, val_nullable, with_mask):
    rows = []
    for kt in itertools.product(W.K(G), repeat=nk):
        isnull = any(k < 0 for k in kt)
        if isnull:
            if not all(key_nullable[j] or kt[j] >= 0 for j in range(nk)):
                continue
            rows.append((kt, 1, 1) if with_mask else (kt, 1))
        else:
            xs = (0, 1) if val_nullable else (1,)
            if with_mask:
                rows.append((kt, 1, 0))
                rows += [(kt, x, 1) for x in xs]
            else:
                rows += [(kt, x) for x in xs]
    return rows


def expected_dtype_kind(op, vkind):
    if op in ("size", "count"):
        return "iu"
    if op == "mean":
        return "f"
    if op == "sum":
        return {"b": "iu", "i": "i", "u": "u", "f": "f", "m": "m"}[vkind]
    return vkind


class ReductionSpace(Subspace):
    shard = 100

    def __init__(self, name, G, lo, hi, keys=("int",), vdtype="f8", mask="bool", sorts=(True, False),
                 seed=0, threshold=None, ops=None):
        self.name = name
        self.ops = ops
        self.G, self.keys, self.vdtype, self.mask, self.sorts = G, tuple(keys), vdtype, mask, sorts
        self.seed = seed
        self.threshold = threshold
        self.with_mask = mask in ("bool", "bool_series")
        alpha = row_alphabet(G, len(keys), [gbh.key_can_null(k) for k in keys],
                             C.can_null(vdtype), self.with_mask)
        self.ws = W.WordSpace(alpha, lo, hi)
        self.warm_key = f"{vdtype}-{mask}"

    def size(self):
        return len(self.ws)

    def case(self, i):
        return dict(w=[[list(r[0])] + list(r[1:]) for r in self.ws.at(i)], keys=list(self.keys),
                    vdtype=self.vdtype, mask=self.mask, sorts=list(self.sorts), seed=self.seed,
                    threshold=self.threshold, ops=self.ops)

    def run(self, case):
        from groupby_lib import GroupBy

        res = Result()
        w = case["w"]
        n = len(w)
        kinds = case["keys"]
        nk = len(kinds)
        seed = case["seed"]
        kts = [tuple(r[0]) for r in w]
        xs = [r[1] for r in w]
        ms = [r[2] for r in w] if self.with_mask_case(case) else None
        gids = [None if any(k < 0 for k in kt) else (kt if nk > 1 else kt[0]) for kt in kts]
        vals, py = C.make_values(xs, case["vdtype"], seed)
        py = gbh.to_ns(py, case["vdtype"])
        vkind = vals.dtype.kind
        key_objs, labels = [], []
        for j, kind in enumerate(kinds):
            arr, lab = gbh.make_key([kt[j] for kt in kts], kind, seed + j)
            key_objs.append(arr)
            labels.append(lab)
        keyarg = key_objs[0] if nk == 1 else key_objs

        def lab_of(g):
            return labels[0][g] if nk == 1 else tuple(labels[j][g[j]] for j in range(nk))

        present_groups = {g for g in gids if g is not None}
        res.nontrivial = n >= 2 and (len(present_groups) >= 2 or None in gids or 0 in xs
                                     or (ms is not None and 0 in ms))
        mk = case["mask"]
        if mk == "none":
            mrefs = [None]
        elif mk in ("bool", "bool_series"):
            mrefs = [list(ms)]
        elif mk == "slice":
            mrefs = [("slice",) + s for s in W.all_slices(n)]
        elif mk == "pos":
            mrefs = [("pos", list(p)) for p in W.position_lists(n, 3)]
        else:
            raise ValueError(mk)

        seams = env.seams()
        seams.set(executor=sched.NAMESPACE, threshold=case.get("threshold"))
        sched.set_schedule(sched.Schedule())
        keysr = [None if g is None else g for g in gids]
        for mref in mrefs:
            sel = R.selected_positions(n, mref)
            rows = {}
            for i in sel:
                g = keysr[i]
                if g is not None:
                    rows.setdefault(g, []).append(i)
            mobj = gbh.mask_object(mref, n, "series" if mk == "bool_series" else "ndarray")
            for sort in case["sorts"]:
                order = gbh.expected_order(rows.keys(), keysr, kinds if nk > 1 else kinds[0],
                                           labels if nk > 1 else labels[0], sort)
                exp_labels = [lab_of(g) for g in order]
                for op in ops_for(case["vdtype"]):
                    if case.get("ops") and op not in case["ops"]:
                        continue
                    exp_vals = [R.reduce_values(op, [py[i] for i in rows[g]]) for g in order]
                    res.execs += 1
                    tag = f"{op} sort={sort} mask={_m(mref)}"

                    def run_op():
                        gb = GroupBy(keyarg, sort=sort)
                        if op == "size":
                            return gb.size(mask=mobj)
                        return getattr(gb, op)(vals, mask=mobj)

                    o = gbh.call(run_op)
                    if o.raised:
                        res.fail("total", f"{tag}: raised {o.raised}")
                        continue
                    if set(o.labels) != set(exp_labels) or len(o.labels) != len(exp_labels):
                        res.fail("labels", f"{tag}: labels {o.labels} expected {exp_labels}")
                        continue
                    if o.labels != exp_labels:
                        res.fail("order", f"{tag}: label order {o.labels} expected {exp_labels}")
                    col = next(iter(o.values))
                    got = dict(zip(o.labels, o.values[col]))
                    dts = o.dtypes[col]
                    try:
                        ndt = np.dtype(dts)
                    except TypeError:
                        ndt = None
                    for lab, ev in zip(exp_labels, exp_vals):
                        if not C.same(ev, got[lab], ndt):
                            res.fail("values", f"{tag}: group {lab}: expected {ev} got {got[lab]}")
                            break
                    if o.kind != "series":
                        res.fail("shape", f"{tag}: expected a Series, got {o.kind}")
                    if ndt is not None and exp_labels:
                        ek = expected_dtype_kind(op, vkind)
                        if ndt.kind not in ek:
                            res.fail("dtype", f"{tag}: result dtype {ndt} for {vals.dtype} input")
        seams.reset()
        return res

    @staticmethod
    def with_mask_case(case):
        return case["mask"] in ("bool", "bool_series")


def _m(mref):
    if mref is None:
        return "none"
    if isinstance(mref, tuple):
        return f"{mref[0]}{list(mref[1:]) if mref[0]=='slice' else mref[1]}"
    return "bool" + "".join(map(str, mref))


class LongGroupSpace(Subspace):
    """'groups of any size': finite boundary family around the 8- and 16-bit limits - group sizes
    127..129, 255..257, 32767..32769, 65535..65537 x key kinds whose group codes are narrow (small
    categoricals and boolean keys: int8 codes; categoricals with 200 categories: int16 codes) x
    narrow value dtypes (int8 / uint8 / bool sums and counts must not wrap) x no mask / a periodic
    boolean mask.  Reference: the same pure-Python per-group definition."""
    shard = 1

    def __init__(self, tier, seed=0):
        self.name = "long-groups"
        q = tier == "quick"
        small = (129, 257) if q else (127, 128, 129, 255, 256, 257, 300)
        big = (32769,) if q else (32767, 32768, 32769, 65535, 65536, 65537)
        cells = []
        for S in small:
            for kk in ("cat8", "bool", "int"):
                for vd in ("f8", "i1", "u1", "b"):
                    cells.append((S, kk, vd))
        for S in big:
            for kk, vd in (("cat16", "f8"), ("cat8", "i1"), ("int", "u1"), ("cat16", "b")):
                cells.append((S, kk, vd))
        self.cells = cells
        self.seed = seed

    def size(self):
        return len(self.cells)

    def warm_indices(self, n):
        return (0, 1, 2, 3)

    def case(self, i):
        S, kk, vd = self.cells[i]
        return dict(S=S, keykind=kk, vdtype=vd)

    def run(self, case):
        from groupby_lib import GroupBy

        res = Result()
        res.nontrivial = True
        S, kk, vd = case["S"], case["keykind"], case["vdtype"]
        n = 2 * S + 3
        codes = (np.arange(n) % 2).astype(np.int64)
        codes[-3:] = 1  # the two groups differ in size: S and S + 3
        if kk == "cat8":
            keys = pd.Categorical.from_codes(codes.astype("i1"), categories=["a", "b", "c"])
            labs = ["a", "b"]
        elif kk == "cat16":
            keys = pd.Categorical.from_codes(codes.astype("i2"), categories=[f"c{i:03d}" for i in range(200)])
            labs = ["c000", "c001"]
        elif kk == "bool":
            keys = codes.astype(bool)
            labs = [False, True]
        else:
            keys = codes + 10
            labs = [10, 11]
        if vd == "f8":
            vals = (np.arange(n) % 7 - 3).astype("f8")
            vals[::5] = np.nan
        elif vd == "i1":
            vals = (np.arange(n) % 5 + 1).astype("i1")       # group sums far beyond 127
        elif vd == "u1":
            vals = (np.arange(n) % 3 + 200).astype("u1")     # beyond 255 after two rows
        else:
            vals = (np.arange(n) % 3 != 0)
        py = [None if (vd == "f8" and v != v) else (bool(v) if vd == "b" else (float(v) if vd == "f8" else int(v)))
              for v in vals.tolist()]
        seams = env.seams()
        seams.set(executor=sched.NAMESPACE)
        sched.set_schedule(sched.Schedule())
        for mname, mask in (("none", None), ("periodic", (np.arange(n) % 4 != 1))):
            rows = {0: [], 1: []}
            for i in range(n):
                if mask is None or mask[i]:
                    rows[int(codes[i])].append(i)
            for op in ops_for(vd):
                res.execs += 1
                tag = f"{op} group sizes {S}/{S + 3} {kk} keys {vd} values mask={mname}"
                o = gbh.call(lambda: GroupBy(keys).size(mask=mask) if op == "size"
                             else getattr(GroupBy(keys), op)(vals, mask=mask))
                if o.raised:
                    res.fail("total", f"{tag}: raised {o.raised}")
                    continue
                if [str(x) for x in o.labels] != [str(x) for x in labs]:
                    res.fail("labels", f"{tag}: labels {o.labels} expected {labs}")
                    continue
                col = next(iter(o.values))
                try:
                    ndt = np.dtype(o.dtypes[col])
                except TypeError:
                    ndt = None
                for g in (0, 1):
                    ev = R.reduce_values(op, [py[i] for i in rows[g]])
                    if not C.same(ev, o.values[col][g], ndt):
                        res.fail("values", f"{tag}: group {labs[g]}: expected {ev} got {o.values[col][g]}")
                        break
        seams.reset()
        return res


KEY_KINDS = ("float", "str_obj", "str_series", "bool", "dt_ns", "dt_us", "dt_s", "cat",
             "td_ns", "dt_ns_tz", "int_I64", "float_f4", "bool_na", "str_S", "int_u1")
VAL_DTYPES = ("f4", "i8", "i4", "i2", "i1", "u1", "u8", "b", "M8[ns]", "M8[us]", "m8[ns]", "m8[us]")


def subspaces(tier, seed):
    q = tier == "quick"
    S = ReductionSpace
    sp = []
    SUB = ("size", "sum", "mean", "first", "max")
    # S1: base configuration
    if q:
        sp.append(S("S1-int-f8-bool-A3-n0to3", 3, 0, 3, seed=seed))
        sp.append(S("S1-int-f8-bool-A2-n4", 2, 4, 4, seed=seed))
    else:
        sp.append(S("S1-int-f8-bool-A3-n0to4", 3, 0, 4, seed=seed))
        sp.append(S("S1-int-f8-bool-A2-n5to6", 2, 5, 6, seed=seed))
        sp.append(S("S1-float-f8-nomask-A3-n5to6", 3, 5, 6, keys=("float",), mask="none", seed=seed))
    # S2: one dimension at a time
    hi = 3 if q else 4
    for kk in KEY_KINDS:
        G = 2 if kk.startswith("bool") else 3
        sp.append(S(f"S2-key-{kk}-n1to{hi}", G, 1, hi, keys=(kk,), seed=seed))
    mk_hi = 2 if q else 3
    for kinds in (("float", "str_obj"), ("int", "float"), ("cat", "dt_ns"), ("str_obj", "float", "int")):
        nm = "+".join(kinds)
        sp.append(S(f"S2-keys-{nm}-n1to{mk_hi}", 2, 1, mk_hi, keys=kinds, seed=seed))
    sp.append(S(f"S2-keys-float+str_obj-n{mk_hi+1}", 2, mk_hi + 1, mk_hi + 1, keys=("float", "str_obj"),
                ops=SUB, seed=seed))
    if not q:
        sp.append(S("S2-keys-str_obj+float+int-n3", 2, 3, 3, keys=("str_obj", "float", "int"),
                    mask="none", ops=SUB, seed=seed))
    for vd in VAL_DTYPES:
        sp.append(S(f"S2-val-{vd}-n1to{hi}", 2 if q else 3, 1, hi, keys=("float",), vdtype=vd, seed=seed))
    sp.append(S(f"S2-mask-none-n0to{hi+1}", 3, 0, hi + 1, keys=("float",), mask="none", seed=seed))
    sp.append(S(f"S2-mask-boolseries-n1to{hi}", 2 if q else 3, 1, hi, keys=("float",),
                mask="bool_series", seed=seed))
    sp.append(S("S2-mask-slice-n0to3", 2 if q else 3, 0, 3, keys=("float",), mask="slice",
                sorts=(True,) if q else (True, False), ops=SUB if q else None, seed=seed))
    sp.append(S("S2-mask-pos-n1to3", 2 if q else 3, 1, 3, keys=("float",), mask="pos",
                sorts=(True,) if q else (True, False), ops=SUB if q else None, seed=seed))
    # the same masks on chunk-wise factorised keys (per-chunk dictionaries, pointer tables)
    sp.append(S("S2-mask-slice-chunkwise-n1to3", 2, 1, 3, keys=("float",), mask="slice", threshold=1,
                sorts=(True,), ops=SUB, seed=seed))
    sp.append(S("S2-mask-slice-chunkwise-G1-n4", 1, 4, 4, keys=("float",), mask="slice", threshold=1,
                sorts=(True,), ops=("sum", "first", "size"), seed=seed))
    sp.append(S(f"S2-mask-bool-chunkwise-n1to{hi}", 2 if q else 3, 1, hi, keys=("float",),
                threshold=1, seed=seed))
    sp.append(S("S2-mask-pos-chunkwise-n1to3", 2, 1, 3, keys=("float",), mask="pos", threshold=1,
                sorts=(True,), ops=SUB, seed=seed))
    # narrow / unsigned / bool values on chunk-wise keys with a boolean mask: a chunk in which the mask
    # rejects every row of a group contributes an empty partial whose filler is an ordinary number
    for vd in ("i4", "u1", "b") + (() if q else ("i1", "i2", "u8")):
        sp.append(S(f"S2-val-{vd}-chunkwise-boolmask-n2to{hi}", 2, 2, hi, keys=("float",), vdtype=vd,
                    threshold=1, sorts=(True,), ops=("min", "max", "first", "last", "sum"), seed=seed))
    sp.append(S(f"S2-key-str_obj-chunkwise-n1to{hi}", 2 if q else 3, 1, hi, keys=("str_obj",),
                threshold=1, seed=seed))
    # S3: key dtype x value dtype on short words
    if not q:
        for kk in ("str_obj", "dt_ns", "cat", "bool"):
            for vd in ("i8", "b", "M8[ns]", "m8[ns]", "f4"):
                sp.append(S(f"S3-{kk}-x-{vd}-n1to3", 2, 1, 3, keys=(kk,), vdtype=vd, mask="none",
                            seed=seed))
    sp.append(LongGroupSpace(tier, seed))
    return sp
