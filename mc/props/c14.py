"""C14 - margins and cross-tabulation totals equal the aggregate of what they summarise."""
from __future__ import annotations

import itertools

import numpy as np
import pandas as pd

from .. import concrete as C
from .. import gbh
from .. import refmodel as R
from .. import sched
from .. import words as W
from ..engine import Result, Subspace
from .. import env
from .c01 import row_alphabet

PROPERTY_ID = "C14"
TECHNIQUE = ("bounded exhaustive enumeration of multi-key row words (sparse label combinations, "
             "nulls in any key position, null values, masks) x aggregation x margin level subsets / "
             "crosstab layouts, on the real implementation against a reference that aggregates "
             "every 'All' combination directly from the rows it summarises")
RULE = ("case = one word over rows (key tuple incl. null, value null/non-null, mask bit) for 1-3 "
        "keys; every case runs {sum,count,size,min,max,mean} x margins in {True} + every non-empty "
        "level subset, and (2-3 keys) every split into row/column keys x margins in {False, True, "
        "'row', 'column'}; non-trivial = >= 2 observed combinations")
ASSUMPTIONS = [
    "n <= 3 rows (quick) / 4 (thorough) for 2 keys, n <= 2-3 for 3 keys, G = 2 labels per key",
    "row order of the result is not constrained (labels -> values mapping is compared)",
    "when no row is selected only 'no exception' is required (the total of nothing is not specified)",
]

FUNCS = ("sum", "count", "size", "min", "max", "mean")
ALL = "All"


def ref_margins(func, rows_by_combo, nk, levels):
    """{label tuple (with 'All'): value} for ordinary rows and every requested 'All' combination.
    rows_by_combo: {label tuple: [values of the selected rows]}"""
    out = {}
    for combo, vals in rows_by_combo.items():
        out[combo] = R.reduce_values(func, vals)
    for r in range(1, len(levels) + 1):
        for T in itertools.combinations(levels, r):
            agg = {}
            for combo, vals in rows_by_combo.items():
                key = tuple(ALL if j in T else combo[j] for j in range(nk))
                agg.setdefault(key, []).extend(vals)
            for key, vals in agg.items():
                out[key] = R.reduce_values(func, vals)
    return out


def norm_lab(lab):
    return lab if isinstance(lab, tuple) else (lab,)


class MarginSpace(Subspace):
    shard = 12

    def __init__(self, name, G, lo, hi, kinds=("float", "str_obj"), seed=0, funcs=FUNCS, crosstab=True,
                 with_mask=True, light=False):
        self.name, self.kinds, self.seed, self.funcs, self.crosstab = name, tuple(kinds), seed, funcs, crosstab
        self.light = light
        alpha = row_alphabet(G, len(kinds), [gbh.key_can_null(k) for k in kinds], True, with_mask)
        self.ws = W.WordSpace(alpha, lo, hi)
        self.warm_key = f"m{len(kinds)}"

    def size(self):
        return len(self.ws)

    def case(self, i):
        return dict(w=[[list(r[0])] + list(r[1:]) for r in self.ws.at(i)], kinds=list(self.kinds),
                    seed=self.seed, funcs=list(self.funcs), crosstab=self.crosstab, light=self.light)

    def run(self, case):
        from groupby_lib import GroupBy
        from groupby_lib.groupby.core import crosstab

        res = Result()
        d = gbh.Data(case["w"], case["kinds"], "f8", case["seed"])
        nk = len(case["kinds"])
        n = d.n
        ms = list(d.ms) if d.ms is not None else [1] * n
        M = np.array(ms, dtype=bool)
        light = case.get("light", False)
        seams = env.seams()
        seams.set(executor=sched.NAMESPACE)
        sched.set_schedule(sched.Schedule())
        combos_all = {norm_lab(d.label_of(g)) for g in d.gids if g is not None}
        res.nontrivial = len(combos_all) >= 2
        for masked in ((False, True) if 0 in ms else (False,)):
            mref = ms if masked else None
            Mo = M if masked else None
            rows = {}
            for i, g in enumerate(d.gids):
                if g is not None and (mref is None or mref[i]):
                    rows.setdefault(norm_lab(d.label_of(g)), []).append(i)
            mtag = "".join(map(str, ms)) if masked else "none"
            level_sets = [None] + [list(s) for r in range(1, nk + 1)
                                   for s in itertools.combinations(range(nk), r)] if nk > 1 else [None]
            for func in case["funcs"]:
                vals_by = {c: [d.py[i] for i in idx] for c, idx in rows.items()}
                for lv in level_sets:
                    margins = True if lv is None else lv
                    levels = list(range(nk)) if lv is None else lv
                    res.execs += 1
                    tag = f"{func} margins={margins} mask={mtag}"

                    def call():
                        g = GroupBy(d.keyarg)
                        if func == "size":
                            return g.size(mask=Mo, margins=margins)
                        return getattr(g, func)(d.V, mask=Mo, margins=margins)

                    o = gbh.call(call)
                    if o.raised:
                        res.fail("total", f"{tag}: raised {o.raised}")
                        continue
                    if not rows:
                        continue
                    exp = ref_margins(func, vals_by, nk, levels)
                    got = {norm_lab(l): v for l, v in zip(o.labels, next(iter(o.values.values())))}
                    if set(got) != set(exp):
                        res.fail("labels", f"{tag}: rows {sorted(map(str, got))} expected {sorted(map(str, exp))}")
                        continue
                    for lab, ev in exp.items():
                        if not gbh.veq(ev, got[lab]):
                            kind = "margin" if ALL in lab else "ordinary-row"
                            res.fail(kind, f"{tag}: {lab}: expected {ev} got {got[lab]}")
                            break
            # ---------------------------------------------------------------- crosstab
            if nk >= 2 and case.get("crosstab", True):
                for n_row in range(1, nk):
                    rkeys, ckeys = d.keys[:n_row], d.keys[n_row:]
                    for aggfunc in (("sum", "mean", None) if light else ("sum", "count", "mean", "max", None)):
                        for margins in ((False, True) if light else (False, True, "row", "column")):
                            res.execs += 1
                            tag = (f"crosstab rows={n_row} cols={nk - n_row} aggfunc={aggfunc} "
                                   f"margins={margins} mask={mtag}")

                            def call():
                                ix = rkeys[0] if len(rkeys) == 1 else list(rkeys)
                                cl = ckeys[0] if len(ckeys) == 1 else list(ckeys)
                                if aggfunc is None:
                                    return crosstab(ix, cl, mask=Mo, margins=margins)
                                return crosstab(ix, cl, d.V, aggfunc=aggfunc, mask=Mo, margins=margins)

                            try:
                                import io, contextlib
                                with contextlib.redirect_stdout(io.StringIO()):
                                    tab = call()
                            except Exception as e:  # noqa
                                res.fail("total", f"{tag}: raised {type(e).__name__}: {str(e)[:120]}")
                                continue
                            if not rows:
                                continue
                            f = aggfunc or "size"
                            vals_by = {c: [d.py[i] for i in idx] for c, idx in rows.items()}
                            lv = []
                            if margins in (True, "row"):
                                lv += list(range(n_row))
                            if margins in (True, "column"):
                                lv += list(range(n_row, nk))
                            exp = ref_margins(f, vals_by, nk, lv) if lv else \
                                {c: R.reduce_values(f, v) for c, v in vals_by.items()}
                            # cells of the table
                            rl = [norm_lab(x) for x in gbh.norm_labels(tab.index)]
                            cl_ = [norm_lab(x) for x in gbh.norm_labels(tab.columns)]
                            cells = {}
                            for a, rlab in enumerate(rl):
                                col_vals = None
                                for b, clab in enumerate(cl_):
                                    v = gbh.norm_any(tab.iat[a, b])
                                    cells[rlab + clab] = v
                            bad = None
                            for lab, ev in exp.items():
                                # partial 'All' patterns inside the row part or inside the column part
                                # (e.g. ('All', b | c)) are not cells of a crosstab
                                rpart, cpart = lab[:n_row], lab[n_row:]
                                if (ALL in rpart and set(rpart) != {ALL}) or (ALL in cpart and set(cpart) != {ALL}):
                                    continue
                                if lab not in cells:
                                    bad = f"cell {lab} missing (table rows {rl} columns {cl_})"
                                    break
                                if not gbh.veq(ev, cells[lab]):
                                    bad = f"cell {lab}: expected {ev} got {cells[lab]}"
                                    break
                            if bad is None:
                                for lab, v in cells.items():
                                    if lab not in exp and v is not None:
                                        rpart, cpart = lab[:n_row], lab[n_row:]
                                        if (ALL in rpart and set(rpart) != {ALL}) or (ALL in cpart and set(cpart) != {ALL}):
                                            continue
                                        bad = f"absent combination {lab} holds {v}"
                                        break
                            if bad:
                                res.fail("crosstab", f"{tag}: {bad}")
        seams.reset()
        return res


def subspaces(tier, seed):
    q = tier == "quick"
    S = MarginSpace
    sp = []
    if q:
        sp.append(S("one-key-n1to3", 2, 1, 3, kinds=("float",), seed=seed))
        sp.append(S("two-keys-float+str-n1", 2, 1, 1, seed=seed))
        sp.append(S("two-keys-float+str-nomask-n2", 2, 2, 2, with_mask=False, seed=seed))
        sp.append(S("two-keys-int+int-nomask-n3-light", 2, 3, 3, kinds=("int", "int"), with_mask=False,
                    funcs=("sum", "mean", "min"), light=True, seed=seed))
        sp.append(S("two-keys-float+str-masked-n2-light", 2, 2, 2, funcs=("sum", "mean", "size"), light=True,
                    seed=seed))
        sp.append(S("three-keys-nomask-n1to2-light", 2, 1, 2, kinds=("int", "str_obj", "int"), with_mask=False,
                    funcs=("sum", "mean"), light=True, seed=seed))
        sp.append(S("three-keys-nullable-nomask-n1-light", 2, 1, 1, kinds=("float", "str_obj", "float"),
                    with_mask=False, funcs=("sum", "size"), light=True, seed=seed))
    else:
        sp.append(S("one-key-n1to4", 3, 1, 4, kinds=("float",), seed=seed))
        sp.append(S("two-keys-float+str-n1to3", 2, 1, 3, seed=seed))
        sp.append(S("two-keys-int+str-n4-nomask", 2, 4, 4, kinds=("int", "str_obj"), with_mask=False,
                    seed=seed))
        sp.append(S("three-keys-n1to2", 2, 1, 2, kinds=("int", "str_obj", "float"),
                    funcs=("sum", "mean", "max", "size"), seed=seed))
        sp.append(S("three-keys-int-n3-nomask", 2, 3, 3, kinds=("int", "str_obj", "int"), with_mask=False,
                    funcs=("sum", "mean"), light=True, seed=seed))
    return sp
