"""C07 - transform=True broadcasts exactly the per-group result (relation between two calls)."""
from __future__ import annotations

import numpy as np
import pandas as pd

from .. import concrete as C
from .. import gbh
from .. import ops as O
from .. import sched
from .. import words as W
from ..engine import Result, Subspace
from .. import env
from .c01 import row_alphabet
from .c06 import _neutral

PROPERTY_ID = "C07"
TECHNIQUE = ("bounded exhaustive enumeration of row words x masks x key representations x value "
             "containers; relational oracle between two executions of the real implementation: "
             "op(..., transform=True)[i] == op(...)[label of row i]")
RULE = ("case = one word over rows (key incl. null, value null/non-null, mask bit) x key "
        "representation (contiguous, chunk-wise, chunk-wise after unification, Arrow pre-chunked) x "
        "value container; every case runs every transform-capable reduction twice (broadcast and "
        "per-group); facets: length, index, values, neutral rows, container; non-trivial = >= 2 "
        "groups or a null key or a rejected row")
ASSUMPTIONS = [
    "n <= 4 rows (quick) / 5 (thorough), G <= 3",
    "neutral rows (null key / group without selected row) may carry null, 0 or the dtype sentinel",
    "size(transform=True) has no values input, so it is excluded from the index facet",
]

TOPS = {
    "sum": lambda g, v, m, t: g.sum(v, mask=m, transform=t),
    "mean": lambda g, v, m, t: g.mean(v, mask=m, transform=t),
    "min": lambda g, v, m, t: g.min(v, mask=m, transform=t),
    "max": lambda g, v, m, t: g.max(v, mask=m, transform=t),
    "count": lambda g, v, m, t: g.count(v, mask=m, transform=t),
    "size": lambda g, v, m, t: g.size(mask=m, transform=t),
    "first": lambda g, v, m, t: g.first(v, mask=m, transform=t),
    "last": lambda g, v, m, t: g.last(v, mask=m, transform=t),
    "var": lambda g, v, m, t: g.var(v, mask=m, transform=t),
    "std": lambda g, v, m, t: g.std(v, mask=m, transform=t),
    "median": lambda g, v, m, t: g.median(v, mask=m, transform=t),
    "apply": lambda g, v, m, t: g.apply(v, O._span, mask=m, transform=t),
}
INDEXES = {
    "shuffled": lambda n: pd.Index([7, 3, 9, 1, 5, 2][:n], dtype="int64"),
    "strings": lambda n: pd.Index(list("qwerty")[:n]),
    "duplicates": lambda n: pd.Index([1, 1, 2, 2, 1, 3][:n], dtype="int64"),
}


class TransformSpace(Subspace):
    shard = 40

    def __init__(self, name, G, lo, hi, rep="contig", container="numpy", vdtype="f8",
                 keykind="float", seed=0, opnames=None):
        self.name = name
        self.rep, self.container, self.vdtype, self.keykind = rep, container, vdtype, keykind
        self.seed, self.opnames = seed, opnames
        alpha = row_alphabet(G, 1, [gbh.key_can_null(keykind) and rep != "arrow"],
                             C.can_null(vdtype), True)
        self.ws = W.WordSpace(alpha, lo, hi)
        self.warm_key = f"{rep}-{container}-{vdtype}"

    def size(self):
        return len(self.ws)

    def case(self, i):
        return dict(w=[[list(r[0])] + list(r[1:]) for r in self.ws.at(i)], rep=self.rep,
                    container=self.container, vdtype=self.vdtype, keykind=self.keykind,
                    seed=self.seed, ops=self.opnames)

    def run(self, case):
        import pyarrow as pa
        import polars as pl
        from groupby_lib import GroupBy

        res = Result()
        d = gbh.Data(case["w"], (case["keykind"],), case["vdtype"], case["seed"])
        n = d.n
        rep, cont = case["rep"], case["container"]
        mref = list(d.ms)
        M = np.array(mref, dtype=bool)
        present = {g for g in d.gids if g is not None}
        res.nontrivial = len(present) >= 2 or None in d.gids or 0 in mref
        seams = env.seams()
        seams.set(executor=sched.NAMESPACE, threshold=1 if rep.startswith("chunkwise") else None)
        sched.set_schedule(sched.Schedule())
        vkind = d.V.dtype.kind

        def keyarg():
            if rep == "arrow":
                comp = (1, n - 1) if n >= 2 else (n,)
                cuts = np.cumsum(comp)[:-1]
                return pa.chunked_array([pa.array(p) for p in np.split(np.asarray(d.keys[0]), cuts)])
            return d.keyarg

        def mkgb():
            g = GroupBy(keyarg())
            if rep == "chunkwise-unified":
                g.groups  # forces unification of the chunk-local codes (keeps chunks)
            elif rep == "chunkwise-flat":
                g.cumcount()  # unifies into one contiguous code array
            return g

        exp_index = None
        ncols = 1
        if cont == "numpy":
            V = d.V
        elif cont in INDEXES:
            exp_index = INDEXES[cont](n)
            V = pd.Series(d.V, index=exp_index, name="val")
            M = pd.Series(M, index=exp_index)
        elif cont == "polars":
            V = pl.Series("val", d.V)
        elif cont == "frame":
            exp_index = INDEXES["shuffled"](n)
            V = pd.DataFrame({"a": d.V, "b": d.V2}, index=exp_index)
            M = pd.Series(M, index=exp_index)
            ncols = 2
        elif cont == "dict":
            V = {"a": d.V, "b": d.V2}
            ncols = 2
        elif cont == "list":
            V = [d.V, d.V2]
            ncols = 2
        elif cont == "dict_mixed":
            # first column integer, second float: a per-column result must keep its own dtype
            Vi = np.array(C.u_table("i8", case["seed"] + 1)[:n], dtype="i8")
            V = {"i": Vi, "f": d.V}
            ncols = 2
        elif cont == "frame_mixed":
            Vi = np.array(C.u_table("i4", case["seed"] + 1)[:n], dtype="i4")
            exp_index = INDEXES["strings"](n)
            V = pd.DataFrame({"f": d.V, "i": Vi, "g": d.V2}, index=exp_index)
            M = pd.Series(M, index=exp_index)
            ncols = 3
        elif cont == "plframe":
            V = pl.DataFrame({"a": d.V, "b": d.V2})
            ncols = 2
        else:
            raise ValueError(cont)

        names = case.get("ops") or list(TOPS)
        for name in names:
            if vkind in "mM" and name in ("sum", "mean", "var", "std", "median", "apply"):
                continue
            if vkind == "b" and name in ("var", "std", "median", "apply"):
                continue
            if ncols > 1 and name in ("size",):
                continue
            f = TOPS[name]
            res.execs += 2
            oT = gbh.call(lambda: f(mkgb(), V, M, True))
            oR = gbh.call(lambda: f(mkgb(), V, M, False))
            if oT.raised or oR.raised:
                if oT.raised and oR.raised:
                    continue
                res.fail("total", f"{name}: transform {'raised ' + oT.raised if oT.raised else 'returned'}"
                                  f", per-group {'raised ' + oR.raised if oR.raised else 'returned'}")
                continue
            if len(oT.labels) != n:
                res.fail("length", f"{name}: {len(oT.labels)} rows out for {n} rows in")
                continue
            if name != "size":
                want = list(range(n)) if exp_index is None else gbh.norm_labels(exp_index)
                if oT.labels != want:
                    res.fail("index", f"{name}: result index {oT.labels} expected {want}")
            # container follows the input
            want_cont = "polars" if cont in ("polars", "plframe") else "pandas"
            if name != "size" and oT.container != want_cont:
                res.fail("container", f"{name}: {cont} input came back as {oT.container}")
            colsT, colsR = list(oT.values), list(oR.values)
            if len(colsT) != len(colsR):
                res.fail("values", f"{name}: {len(colsT)} columns broadcast vs {len(colsR)} per group")
                continue
            for cT, cR in zip(colsT, colsR):
                per_group = dict(zip(oR.labels, oR.values[cR]))
                dts = oT.dtypes[cT]
                bad = None
                for i in range(n):
                    g = d.gids[i]
                    got = oT.values[cT][i]
                    lab = None if g is None else d.label_of(g)
                    if lab is not None and lab in per_group:
                        if not gbh.veq(got, per_group[lab]):
                            bad = f"row {i} (group {lab}): {got} but the group result is {per_group[lab]}"
                            break
                    else:
                        if not _neutral(got, dts):
                            why = "null key" if lab is None else "group without selected row"
                            bad = f"row {i} ({why}) receives {got}"
                            break
                if bad:
                    res.fail("values", f"{name}[{cT}]: {bad}")
                    break
        seams.reset()
        return res


def subspaces(tier, seed):
    q = tier == "quick"
    S = TransformSpace
    sp = []
    if q:
        sp += [S("contig-numpy-A3-n1to3", 3, 1, 3, seed=seed),
               S("contig-numpy-A2-n4", 2, 4, 4, seed=seed),
               S("chunkwise-numpy-A3-n1to3", 3, 1, 3, rep="chunkwise", seed=seed),
               S("chunkwise-numpy-A2-n4", 2, 4, 4, rep="chunkwise", seed=seed)]
    else:
        sp += [S("contig-numpy-A3-n1to4", 3, 1, 4, seed=seed),
               S("contig-numpy-A2-n5", 2, 5, 5, seed=seed),
               S("chunkwise-numpy-A3-n1to4", 3, 1, 4, rep="chunkwise", seed=seed),
               S("chunkwise-numpy-A2-n5", 2, 5, 5, rep="chunkwise", seed=seed)]
    h = 3 if q else 4
    sp.append(S(f"chunkwise-unified-n1to{h}", 2 if q else 3, 1, h, rep="chunkwise-unified", seed=seed))
    sp.append(S(f"chunkwise-flat-n1to{h}", 2, 1, h, rep="chunkwise-flat", seed=seed))
    sp.append(S(f"arrow-prechunked-n1to{h}", 2 if q else 3, 1, h, rep="arrow", seed=seed))
    for cont in ("shuffled", "strings", "duplicates", "polars", "frame", "dict", "list", "plframe",
                 "dict_mixed", "frame_mixed"):
        sp.append(S(f"contig-{cont}-n1to3", 2, 1, 3, container=cont, seed=seed))
    for cont in ("shuffled", "polars", "frame", "dict_mixed"):
        sp.append(S(f"chunkwise-{cont}-n1to3", 2, 1, 3, rep="chunkwise", container=cont, seed=seed))
    for vd in ("i8", "M8[ns]", "b") + (() if q else ("f4", "m8[ns]", "u1", "i4")):
        sp.append(S(f"contig-numpy-{vd}-n1to3", 2, 1, 3, vdtype=vd, seed=seed))
        sp.append(S(f"chunkwise-numpy-{vd}-n1to3", 2, 1, 3, rep="chunkwise", vdtype=vd, seed=seed))
    sp.append(S("contig-polars-M8-n1to3", 2, 1, 3, container="polars", vdtype="M8[us]", seed=seed))
    for kk in ("str_obj", "cat", "int"):
        sp.append(S(f"contig-{kk}keys-n1to3", 2 if q else 3, 1, 3, keykind=kk, seed=seed))
    return sp
