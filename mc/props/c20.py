"""C20 - stand-alone array helpers agree with their NumPy definitions."""
from __future__ import annotations

import io
import contextlib
import itertools
import math
import re
import warnings

import numpy as np
import pandas as pd

from .. import concrete as C
from .. import gbh
from .. import sched
from .. import words as W
from ..engine import Result, Subspace
from .. import env

PROPERTY_ID = "C20"
TECHNIQUE = ("bounded exhaustive enumeration: every null pattern of arrays of length 1..8 x thread "
             "counts 1..8 x dtypes x FIFO/LIFO completion order for the NaN-aware reducers against "
             "numpy.nan*; every small matrix/vector for nb_dot against a @ b; every boolean frame up "
             "to 4x3 for the labeller; a value/bin-edge grid (values on, just below and just above "
             "every edge) for pretty_cut with the printed label parsed back"
             '; task-footprint recorder on the reducer tasks')
RULE = ("reducer case = one null pattern x dtype, run for every function x n_threads 1..8 (so "
        "all-null, single-element and empty blocks occur); 2-D case = null pattern of a 2x2/2x3/3x2 "
        "array x axis; dot case = one matrix over {0,1,-1,2} x every vector; labeller case = one "
        "boolean frame; binning case = one edge set x every probe value; non-trivial = more than one "
        "element / block")
ASSUMPTIONS = [
    'pretty_cut also with int8 / uint8 / int16 values and bin edges inside and outside their range',
    'footprint sub-spaces: write-write conflicts between the per-block / per-column reducer tasks (f8, i4, i8, u1; all 2-D cases)',
    "array length <= 8 (quick) / 10 (thorough) for the 1-D reducers",
    "values from the position table (dyadic), var/std compared with relative tolerance 1e-9",
    "nanvar/nanstd are called with explicit ddof in {0,1} and compared with numpy's ddof",
    "pretty_cut: documented convention 'l - r' = (l, r] for floats/timedeltas, [l, r] for integers, "
    "' <= b', ' > b' for the outer bins",
]


def feq(a, b, rtol=1e-12):
    a = None if a is None else a
    try:
        fa, fb = float(a), float(b)
    except (TypeError, ValueError):
        return False
    if math.isnan(fa) or math.isnan(fb):
        return math.isnan(fa) and math.isnan(fb)
    return abs(fa - fb) <= rtol * max(1.0, abs(fa), abs(fb))


class Reduce1D(Subspace):
    shard = 8

    def __init__(self, name, lo, hi, dtype="f8", maxthreads=8, seed=0, footprint=False):
        self.name, self.dtype, self.maxthreads, self.seed = name, dtype, maxthreads, seed
        self.footprint = footprint
        self.ws = W.WordSpace([0, 1] if C.can_null(dtype) else [1], lo, hi)
        self.warm_key = f"r1-{dtype}"

    def size(self):
        return len(self.ws)

    def case(self, i):
        return dict(xs=self.ws.at(i), dtype=self.dtype, maxthreads=self.maxthreads, seed=self.seed,
                    footprint=self.footprint)

    def run(self, case):
        from groupby_lib import nanops as no

        res = Result()
        xs = case["xs"]
        n = len(xs)
        arr, py = C.make_values(xs, case["dtype"], case["seed"])
        res.nontrivial = n >= 2
        temporal = arr.dtype.kind in "mM"
        seams = env.seams()
        seams.set(executor=sched.NAMESPACE)
        fpr = bool(case.get("footprint"))
        sched.FOOTPRINT.reset(fpr)
        funcs = ["count", "nanmin", "nanmax"] if temporal else \
            ["nansum", "nanmean", "nanmin", "nanmax", "count", "nanvar0", "nanvar1", "nanstd0", "nanstd1"]
        with warnings.catch_warnings():
            warnings.simplefilter("ignore")
            ref = {}
            if temporal:
                nn = [v for v in py if v is not None]
                ref["count"] = len(nn)
                ref["nanmin"] = min(nn) if nn else None
                ref["nanmax"] = max(nn) if nn else None
            else:
                a64 = arr
                ref["nansum"] = np.nansum(a64)
                ref["nanmean"] = np.nanmean(a64) if n else np.nan
                ref["nanmin"] = np.nanmin(a64) if np.isfinite(a64.astype("f8")).any() else np.nan
                ref["nanmax"] = np.nanmax(a64) if np.isfinite(a64.astype("f8")).any() else np.nan
                ref["count"] = int(np.sum(~np.isnan(a64.astype("f8"))))
                for dd in (0, 1):
                    ref[f"nanvar{dd}"] = np.nanvar(a64.astype("f8"), ddof=dd)
                    ref[f"nanstd{dd}"] = np.nanstd(a64.astype("f8"), ddof=dd)
                    if ref["count"] - dd <= 0:
                        ref[f"nanvar{dd}"] = ref[f"nanstd{dd}"] = np.nan
        for T in range(1, case["maxthreads"] + 1):
            for pol in ((0, -1) if 1 < T <= 4 else (0,)):
                for f in funcs:
                    if f == "count" and T > 1:
                        continue  # count has no thread argument
                    sched.set_schedule(sched.Schedule([], default=pol))
                    res.execs += 1
                    tag = f"{f} n_threads={T} {'LIFO' if pol else 'FIFO'} {arr.dtype}"
                    try:
                        with contextlib.redirect_stdout(io.StringIO()), warnings.catch_warnings():
                            warnings.simplefilter("ignore")
                            if f == "count":
                                out = no.count(arr)
                            elif f.startswith(("nanvar", "nanstd")):
                                out = getattr(no, f[:-1])(arr, n_threads=T, ddof=int(f[-1]))
                            else:
                                out = getattr(no, f)(arr, n_threads=T)
                    except Exception as e:  # noqa
                        res.fail("total", f"{tag}: raised {type(e).__name__}: {str(e)[:100]}")
                        continue
                    if temporal:
                        got = gbh.norm_any(out) if f != "count" else int(out)
                        if f != "count" and got is not None:
                            got = got // gbh._UNIT_NS[np.datetime_data(arr.dtype)[0]] \
                                if isinstance(out, (pd.Timestamp, pd.Timedelta)) else got
                        want = ref[f]
                        if got != want:
                            res.fail("values", f"{tag}: expected {want} got {got}")
                        continue
                    if isinstance(out, complex) or (hasattr(out, "dtype") and np.asarray(out).dtype.kind == "c"):
                        res.fail("values", f"{tag}: complex result {out}")
                        continue
                    rtol = 1e-9 if f.startswith(("nanvar", "nanstd")) else (1e-6 if arr.dtype == np.float32 else 1e-12)
                    if not feq(out, ref[f], rtol):
                        res.fail("values", f"{tag}: expected {ref[f]} got {out}")
        sched.set_schedule(sched.Schedule())
        if fpr:
            for msg in sorted(set(sched.FOOTPRINT.conflicts))[:3]:
                res.fail("independence", msg)
            res.extra = {"footprint_task_bodies_checked": sched.FOOTPRINT.tasks_checked}
            sched.FOOTPRINT.reset(False)
        seams.reset()
        return res


class Reduce2D(Subspace):
    shard = 20

    def __init__(self, name, shape, seed=0, dtype="f8"):
        self.name, self.shape, self.seed, self.dtype = name, shape, seed, dtype
        if C.can_null(dtype):
            self.ws = W.WordSpace([0, 1], shape[0] * shape[1], shape[0] * shape[1])
        else:
            self.ws = None  # integers: no null patterns, every rotation of the value table instead
        self.warm_key = "r2"

    def size(self):
        return len(self.ws) if self.ws is not None else 12

    def case(self, i):
        if self.ws is None:
            return dict(xs=[1] * (self.shape[0] * self.shape[1]), shape=list(self.shape),
                        seed=self.seed + i, dtype=self.dtype)
        return dict(xs=self.ws.at(i), shape=list(self.shape), seed=self.seed, dtype=self.dtype)

    def run(self, case):
        from groupby_lib import nanops as no

        res = Result()
        r, c = case["shape"]
        arr, _ = C.make_values(case["xs"], case.get("dtype", "f8"), case["seed"])
        arr = arr.reshape(r, c)
        res.nontrivial = True
        seams = env.seams()
        seams.set(executor=sched.NAMESPACE)
        sched.set_schedule(sched.Schedule())
        sched.FOOTPRINT.reset(True)  # per-column tasks of reduce_2d: footprints checked on every case
        for axis in (0, 1):
            for f in ("nansum", "nanmin", "nanmax"):
                for T in (1, 2):
                    res.execs += 1
                    with warnings.catch_warnings():
                        warnings.simplefilter("ignore")
                        want = getattr(np, f)(arr, axis=axis)
                        try:
                            with contextlib.redirect_stdout(io.StringIO()):
                                out = getattr(no, f)(arr, axis=axis, n_threads=T)
                        except Exception as e:  # noqa
                            res.fail("total", f"{f} axis={axis} n_threads={T}: raised {type(e).__name__}: {str(e)[:80]}")
                            continue
                    out = np.asarray(out, dtype="f8")
                    if out.shape != want.shape or not all(feq(a, b) for a, b in zip(out.ravel(), want.ravel())):
                        res.fail("values", f"{f} axis={axis} n_threads={T} shape={r}x{c}: expected {want.tolist()} got {out.tolist()}")
        for msg in sorted(set(sched.FOOTPRINT.conflicts))[:3]:
            res.fail("independence", msg)
        res.extra = {"footprint_task_bodies_checked": sched.FOOTPRINT.tasks_checked}
        sched.FOOTPRINT.reset(False)
        seams.reset()
        return res


class DotSpace(Subspace):
    shard = 100

    def __init__(self, name, r, c, seed=0):
        self.name, self.r, self.c = name, r, c
        # 3x3: entries from {0,1,-1} (19 683 matrices), smaller shapes also with 2
        self.ws = W.WordSpace([0, 1, -1] if r * c >= 9 else [0, 1, -1, 2], r * c, r * c)
        self.warm_key = "dot"

    def size(self):
        return len(self.ws)

    def case(self, i):
        return dict(m=self.ws.at(i), r=self.r, c=self.c)

    def run(self, case):
        import polars as pl
        from groupby_lib.util import nb_dot

        res = Result()
        r, c = case["r"], case["c"]
        A = np.array(case["m"], dtype="i8").reshape(r, c)
        res.nontrivial = r * c > 1
        for vec in itertools.product((-1, 1, 2), repeat=c):
            b = np.array(vec, dtype="i8")
            want = A @ b
            for cont, dt in (("ndarray", "i8"), ("ndarray", "f8"), ("pandas", "f8"), ("polars", "i8")):
                Am = A.astype(dt)
                if cont == "pandas":
                    arg = pd.DataFrame(Am, index=list("xyz")[:r], columns=list("pqr")[:c])
                elif cont == "polars":
                    arg = pl.DataFrame({f"c{j}": Am[:, j] for j in range(c)})
                else:
                    arg = Am
                res.execs += 1
                try:
                    out = nb_dot(arg, b.astype(dt))
                except Exception as e:  # noqa
                    res.fail("total", f"nb_dot {cont} {dt} {r}x{c}: raised {type(e).__name__}: {str(e)[:80]}")
                    continue
                got = np.asarray(out.to_numpy() if hasattr(out, "to_numpy") else out, dtype="f8")
                if got.shape != want.shape or (got != want).any():
                    res.fail("values", f"nb_dot {cont} {dt}: {A.tolist()} @ {list(vec)} = {want.tolist()} got {got.tolist()}")
                if cont == "pandas" and list(out.index) != list("xyz")[:r]:
                    res.fail("index", f"nb_dot pandas: index {list(out.index)}")
        return res


class LabelSpace(Subspace):
    shard = 100

    def __init__(self, name, r, c, seed=0):
        self.name, self.r, self.c = name, r, c
        self.ws = W.WordSpace([0, 1], r * c, r * c)
        self.warm_key = "label"

    def size(self):
        return len(self.ws)

    def case(self, i):
        return dict(bits=self.ws.at(i), r=self.r, c=self.c)

    def run(self, case):
        from groupby_lib.util import bools_to_categorical

        res = Result()
        r, c = case["r"], case["c"]
        M = np.array(case["bits"], dtype=bool).reshape(r, c)
        cols = ["red", "green", "blue"][:c]
        df = pd.DataFrame(M, columns=cols, index=list("wxyz")[:r])
        res.nontrivial = r * c > 1
        for sep, na_rep, allow in ((" & ", "None", True), ("|", "-", True), (" & ", "None", False)):
            res.execs += 1
            want = [sep.join(col for col, v in zip(cols, row) if v) or na_rep for row in M]
            multi = any(row.sum() > 1 for row in M)
            try:
                out = bools_to_categorical(df, sep=sep, na_rep=na_rep, allow_duplicates=allow)
            except Exception as e:  # noqa
                if not allow and multi and isinstance(e, ValueError):
                    continue
                res.fail("total", f"bools_to_categorical sep={sep!r} allow={allow}: raised {type(e).__name__}: {str(e)[:80]}")
                continue
            if not allow and multi:
                res.fail("total", f"allow_duplicates=False accepted a row with several True values")
                continue
            got = [str(v) for v in pd.Series(out).astype(object).tolist()]
            if got != want:
                res.fail("values", f"bools_to_categorical {M.astype(int).tolist()} sep={sep!r}: expected {want} got {got}")
        return res


def _parse_num(s):
    return float(s)


class CutSpace(Subspace):
    shard = 10

    def __init__(self, name, kind, seed=0):
        self.name, self.kind = name, kind
        if kind == "int":
            grid = [0, 1, 2, 5, 10]
        elif kind == "float":
            grid = [0.5, 1.0, 1.25, 2.0, 10.25, 10.3]
        elif kind in ("int8", "uint8", "int16"):
            # narrow value dtypes with edges inside AND outside their range (catch-all top / bottom edges)
            grid = {"int8": [-200, 0, 100, 127, 200], "uint8": [-1, 0, 100, 255, 999],
                    "int16": [-40000, 0, 32767, 40000, 100000]}[kind]
        elif kind == "float0":
            grid = [0.0, 1.0, 2.0, 5.0]
        else:  # timedelta (seconds)
            grid = [1, 2, 5, 60]
        self.grid = grid
        self.sets = []
        for k in (1, 2, 3):
            for comb in itertools.combinations(grid, k):
                self.sets.append(list(comb))
                if k >= 2:
                    self.sets.append(list(reversed(comb)))  # unsorted input
        self.warm_key = "cut"

    def size(self):
        return len(self.sets)

    def case(self, i):
        return dict(kind=self.kind, bins=self.sets[i])

    def run(self, case):
        from groupby_lib.util import pretty_cut

        res = Result()
        kind, bins = case["kind"], case["bins"]
        res.nontrivial = len(bins) > 1
        edges = sorted(bins)
        narrow = kind if kind in ("int8", "uint8", "int16") else None
        if narrow:
            ii = np.iinfo(narrow)
            probes = sorted({min(max(e + d, ii.min), ii.max) for e in edges for d in (-2, -1, 0, 1, 2)}
                            | {ii.min, ii.max, 0})
            xs = [np.array(probes, dtype=narrow), pd.Series(np.array(probes, dtype=narrow), name="x")]
            binsarg = [bins, np.array(bins)]
            kind = "int"
        elif kind == "int":
            probes = sorted({e + d for e in edges for d in (-2, -1, 0, 1, 2)})
            xs = [np.array(probes, dtype="i8"), pd.Series(probes, index=[f"r{i}" for i in range(len(probes))], name="x")]
            binsarg = [bins, np.array(bins)]
        elif kind.startswith("float"):
            probes = sorted({round(e + d, 6) for e in edges for d in (-0.3, -0.04, -0.001, 0, 0.001, 0.04, 0.3)})
            xs = [np.array(probes + [np.nan], dtype="f8"), pd.Series(probes + [np.nan], name="x")]
            binsarg = [bins, np.array(bins, dtype="f8")]
        else:
            probes = sorted({e + d for e in edges for d in (-1, 0, 1)})
            xs = [np.array([p * 10**9 for p in probes] + [C.INT_MIN], dtype="i8").view("m8[ns]")]
            binsarg = [[pd.Timedelta(seconds=b) for b in bins]]
        for x in xs:
            for b in binsarg:
                res.execs += 1
                try:
                    out = pretty_cut(x, b)
                except Exception as e:  # noqa
                    res.fail("total", f"pretty_cut {kind} bins={bins}: raised {type(e).__name__}: {str(e)[:100]}")
                    continue
                labs = pd.Series(out).astype(object).tolist()
                vals = list(np.asarray(x).tolist()) if kind != "timedelta" else \
                    [None if v == C.INT_MIN else v / 10**9 for v in np.asarray(x).view("i8").tolist()]
                if isinstance(x, pd.Series) and (not isinstance(out, pd.Series) or list(out.index) != list(x.index)):
                    res.fail("index", f"pretty_cut: Series input, result {type(out).__name__}")
                for v, lab in zip(vals, labs):
                    isnull = v is None or (isinstance(v, float) and math.isnan(v))
                    if isnull:
                        if not (lab is None or (isinstance(lab, float) and math.isnan(lab))):
                            res.fail("null", f"pretty_cut {kind} bins={bins}: null value got bin {lab!r}")
                        continue
                    if lab is None or (isinstance(lab, float) and math.isnan(lab)):
                        res.fail("values", f"pretty_cut {kind} bins={bins}: value {v} got no bin")
                        break
                    ok = self._contains(kind, str(lab), v)
                    if ok is None:
                        res.fail("label", f"pretty_cut {kind} bins={bins}: cannot parse label {lab!r}")
                        break
                    if not ok:
                        res.fail("values", f"pretty_cut {kind} bins={bins}: value {v} sits in bin {lab!r}")
                        break
        return res

    @staticmethod
    def _contains(kind, lab, v):
        conv = (lambda s: pd.Timedelta(s).total_seconds()) if kind == "timedelta" else float
        try:
            if lab.startswith(" <= "):
                return v <= conv(lab[4:])
            if lab.startswith(" > "):
                return v > conv(lab[3:])
            m = re.match(r"^(.+?) - (.+)$", lab)
            if m:
                lo, hi = conv(m.group(1)), conv(m.group(2))
                if kind == "int":
                    return lo <= v <= hi
                return lo < v <= hi
            single = conv(lab)
            return v == single
        except (ValueError, TypeError):
            return None


def subspaces(tier, seed):
    q = tier == "quick"
    sp = []
    L = 8 if q else 10
    sp.append(Reduce1D(f"reducers-f8-len1to{L}", 1, L, "f8", seed=seed))
    sp.append(Reduce1D(f"reducers-f4-len1to{L-2}", 1, L - 2, "f4", seed=seed))
    for dt in ("i8", "i4"):
        sp.append(Reduce1D(f"reducers-{dt}-len1to{L+2}", 1, L + 2, dt, maxthreads=12, seed=seed))
    for dt in ("M8[ns]", "m8[us]"):
        sp.append(Reduce1D(f"reducers-{dt}-len1to{L-2}", 1, L - 2, dt, seed=seed))
    # task footprints of the per-block reducer tasks (write-write conflicts on shared memory)
    sp.append(Reduce1D(f"footprint-reducers-f8-len{5 if q else 7}", 5 if q else 7, 5 if q else 7, "f8",
                       maxthreads=4, seed=seed, footprint=True))
    for dt in ("i4", "i8", "u1"):
        sp.append(Reduce1D(f"footprint-reducers-{dt}-len4to{5 if q else 7}", 4, 5 if q else 7, dt,
                           maxthreads=4, seed=seed, footprint=True))
    for shape in ((2, 2), (2, 3), (3, 2)) + (() if q else ((3, 3), (1, 4), (4, 1))):
        sp.append(Reduce2D(f"reducers-2d-{shape[0]}x{shape[1]}", shape, seed=seed))
    for dt in ("i1", "i4", "u1", "i8", "f4"):
        for shape in ((2, 2), (3, 2), (2, 3)):
            sp.append(Reduce2D(f"reducers-2d-{dt}-{shape[0]}x{shape[1]}", shape, seed=seed, dtype=dt))
    for kk in ("int8", "uint8", "int16"):
        sp.append(CutSpace(f"pretty_cut-{kk}", kk, seed=seed))
    for r, c in ((1, 1), (2, 1), (1, 2), (2, 2), (3, 2)) + (() if q else ((2, 3), (3, 3))):
        sp.append(DotSpace(f"nb_dot-{r}x{c}", r, c))
    for r in (1, 2, 3, 4):
        for c in (1, 2, 3):
            sp.append(LabelSpace(f"labeller-{r}x{c}", r, c))
    for kind in ("int", "float", "float0", "timedelta"):
        sp.append(CutSpace(f"pretty_cut-{kind}", kind))
    return sp
