"""C08 - cumulative operations are per-group prefix reductions (kernel level and GroupBy level)."""
from __future__ import annotations

import numpy as np
import pandas as pd

from .. import concrete as C
from .. import gbh
from .. import refmodel as R
from .. import sched
from .. import words as W
from ..engine import Result, Subspace
from .. import env
from .c01 import row_alphabet

PROPERTY_ID = "C08"
TECHNIQUE = ("bounded exhaustive enumeration of row words (group interleavings x null placements x "
             "masks) x value dtypes x skip_na, executed on the real cumulative kernels and GroupBy "
             "methods against a pure-Python prefix-reduction reference")
RULE = ("case = one word over rows (key incl. null, value null/non-null, mask bit) x value dtype x "
        "key representation; every case runs cumsum/cummin/cummax (both skip_na) and cumcount at "
        "kernel level and through GroupBy; facets: values at every selected row with a key, "
        "last-equals-reduction, dtype (integer/temporal stay exact); non-trivial = two rows of one "
        "group, or a null/rejected row before another row")
ASSUMPTIONS = [
    "the running sum before a group's first non-null value must be exactly 0",
    "boundary family 'long-groups': group sizes around 127/128, 255/256, 32767/32768 with int8 / int16 group codes and int8 / uint8 / f8 values; exact linear-time reference",
    "n <= 4 rows (quick) / 5-6 (thorough); G <= 3",
    "cummin/cummax with skip_na=False are checked only up to the group's first null (the statement "
    "defines the non-skipping mode for cumsum only); cumsum(skip_na=True) before the group's first "
    "non-null value must be 0 or null (the sum of nothing)",
    "int64 tables hold magnitudes above 2**53 so that a float detour is visible",
]

OPS = ("cumsum", "cummin", "cummax")


def _dtype_ok(op, in_dt, out_dt):
    in_dt, out_dt = np.dtype(in_dt), np.dtype(out_dt)
    if op == "cumcount":
        return out_dt.kind in "iu"
    if in_dt.kind in "mM":
        return out_dt == in_dt
    if op == "cumsum":
        if in_dt.kind in "iub":
            return out_dt.kind in "iu" and out_dt.itemsize == 8
        return out_dt.kind == "f"
    if in_dt.kind in "iu":
        return out_dt.kind in "iu"
    if in_dt.kind == "b":
        return out_dt.kind in "biu"
    return out_dt.kind == "f"


class CumSpace(Subspace):
    shard = 100

    def __init__(self, name, G, lo, hi, vdtype="f8", rep="contig", keykind="float", seed=0):
        self.name = name
        self.vdtype, self.rep, self.keykind, self.seed = vdtype, rep, keykind, seed
        alpha = row_alphabet(G, 1, [gbh.key_can_null(keykind)], C.can_null(vdtype), True)
        self.ws = W.WordSpace(alpha, lo, hi)
        self.warm_key = f"{vdtype}-{rep}"

    def size(self):
        return len(self.ws)

    def case(self, i):
        return dict(w=[[list(r[0])] + list(r[1:]) for r in self.ws.at(i)], vdtype=self.vdtype,
                    rep=self.rep, keykind=self.keykind, seed=self.seed)

    def run(self, case):
        import groupby_lib.groupby.numba as nbm
        from groupby_lib import GroupBy

        res = Result()
        d = gbh.Data(case["w"], (case["keykind"],), case["vdtype"], case["seed"])
        n = d.n
        ks = [-1 if g is None else g for g in d.gids]
        ms = list(d.ms)
        M = np.array(ms, dtype=bool)
        py = d.py
        in_dt = d.V.dtype
        temporal = in_dt.kind in "mM"
        seen = set()
        for i in range(n):
            if ks[i] >= 0 and ks[i] in seen:
                res.nontrivial = True
            if ks[i] >= 0 and ms[i]:
                seen.add(ks[i])
            if (ks[i] < 0 or not ms[i] or not d.xs[i]) and i < n - 1:
                res.nontrivial = True
        seams = env.seams()
        seams.set(executor=sched.NAMESPACE, threshold=1 if case["rep"] == "chunkwise" else None)
        sched.set_schedule(sched.Schedule())
        codes = np.array(ks, dtype=np.int64)
        G = 3
        masks = [(None, None), (M, ms)] if 0 in ms else [(None, None)]
        nullable = C.can_null(case["vdtype"])
        for Mobj, mref in masks:
            # ---- reductions for the relational facet
            rows = {}
            for i in range(n):
                if ks[i] >= 0 and (mref is None or mref[i]):
                    rows.setdefault(ks[i], []).append(i)
            for op in OPS + ("cumcount",):
                if op == "cumsum" and in_dt.kind == "M":
                    continue  # a sum of instants is not defined
                for skip in ((True, False) if (op != "cumcount" and nullable) else (True,)):
                    exp, defined = R.cumulative(op, ks, py, mref, skip)
                    tag = f"{op} skip_na={skip} mask={'none' if mref is None else ''.join(map(str, mref))}"
                    for level in ("kernel", "GroupBy"):
                        res.execs += 1
                        try:
                            import io, contextlib
                            with contextlib.redirect_stdout(io.StringIO()):
                                if level == "kernel":
                                    if op == "cumcount":
                                        out = nbm.cumcount(codes, None, G, Mobj)
                                    else:
                                        out = getattr(nbm, op)(codes, d.V, G, Mobj, skip)
                                    obs = gbh.norm_np(out)
                                    odt = np.asarray(out).dtype
                                else:
                                    g = GroupBy(d.keyarg)
                                    if op == "cumcount":
                                        out = g.cumcount(mask=Mobj)
                                    else:
                                        out = getattr(g, op)(d.V, mask=Mobj, skip_na=skip)
                                    obs, dts = gbh.norm_values(out)
                                    odt = out.dtype
                                    if list(out.index) != list(range(n)):
                                        res.fail("index", f"{tag} [{level}]: index {list(out.index)}")
                        except Exception as e:  # noqa
                            res.fail("total", f"{tag} [{level}]: raised {type(e).__name__}: {str(e)[:120]}")
                            continue
                        if len(obs) != n:
                            res.fail("values", f"{tag} [{level}]: {len(obs)} values for {n} rows")
                            continue
                        bad = None
                        for i in range(n):
                            if not defined[i]:
                                continue
                            if exp[i] == R.NEUTRAL:
                                # the sum of no values is 0 (the neutral result of C01's statement)
                                if obs[i] == 0 and obs[i] is not None and obs[i] is not False:
                                    continue
                                bad = f"row {i}: nothing to sum yet, expected 0, got {obs[i]}"
                                break
                            if not C.same(exp[i], obs[i], odt if isinstance(odt, np.dtype) else None):
                                bad = f"row {i}: expected {exp[i]} got {obs[i]}"
                                break
                        if bad:
                            res.fail("values", f"{tag} [{level}]: {bad}")
                        if isinstance(odt, np.dtype) and not _dtype_ok(op, in_dt, odt):
                            res.fail("dtype", f"{tag} [{level}]: {in_dt} in, {odt} out")
                        elif not isinstance(odt, np.dtype) and temporal:
                            res.fail("dtype", f"{tag} [{level}]: {in_dt} in, {odt} out")
                        # relational facet: last cumulative value == group reduction
                        if op != "cumcount" and skip and not bad:
                            red = {"cumsum": "sum", "cummin": "min", "cummax": "max"}[op]
                            for g_, idx in rows.items():
                                last = idx[-1]
                                want = R.reduce_values(red, [py[i] for i in idx])
                                if red == "sum" and all(py[i] is None for i in idx):
                                    continue
                                if not C.same(want, obs[last], odt if isinstance(odt, np.dtype) else None):
                                    res.fail("last-equals-reduction",
                                             f"{tag} [{level}]: group {g_}: last cumulative value "
                                             f"{obs[last]} but {red} is {want}")
                                    break
        seams.reset()
        return res


class LongCumSpace(Subspace):
    """Boundary family for per-group running state: two interleaved groups of S and S+3 rows around the
    8- and 16-bit limits x key kinds with narrow group codes (int8: small categoricals, boolean keys;
    int16: 200 categories) x narrow value dtypes (running sums beyond the input width).  Linear-time
    reference with exact Python integers."""
    shard = 1

    def __init__(self, tier, seed=0):
        self.name = "long-groups"
        q = tier == "quick"
        small = (129, 257) if q else (127, 128, 129, 255, 256, 257, 300)
        big = (32769,) if q else (32767, 32768, 32769, 65537)
        self.cells = [(S, kk, vd) for S in small for kk in ("cat8", "bool", "int") for vd in ("f8", "i1", "u1")]
        self.cells += [(S, kk, vd) for S in big for kk, vd in (("cat16", "f8"), ("cat8", "i1"), ("bool", "u1"))]

    def size(self):
        return len(self.cells)

    def warm_indices(self, n):
        return (0, 1, 2)

    def case(self, i):
        S, kk, vd = self.cells[i]
        return dict(S=S, keykind=kk, vdtype=vd)

    def run(self, case):
        from groupby_lib import GroupBy

        res = Result()
        res.nontrivial = True
        S, kk, vd = case["S"], case["keykind"], case["vdtype"]
        n = 2 * S + 3
        codes = (np.arange(n) % 2).astype(np.int64)
        codes[-3:] = 1
        if kk == "cat8":
            keys = pd.Categorical.from_codes(codes.astype("i1"), categories=["a", "b", "c"])
        elif kk == "cat16":
            keys = pd.Categorical.from_codes(codes.astype("i2"), categories=[f"c{i:03d}" for i in range(200)])
        elif kk == "bool":
            keys = codes.astype(bool)
        else:
            keys = codes + 10
        if vd == "f8":
            vals = ((np.arange(n) * 7) % 11 - 5).astype("f8")
        elif vd == "i1":
            vals = ((np.arange(n) * 7) % 11 - 3).astype("i1")
        else:
            vals = ((np.arange(n) * 7) % 13 + 200).astype("u1")
        py = vals.tolist()
        seams = env.seams()
        seams.set(executor=sched.NAMESPACE)
        sched.set_schedule(sched.Schedule())
        for mname, mask in (("none", None), ("periodic", (np.arange(n) % 4 != 1))):
            state = {}
            exp = {op: [None] * n for op in ("cumsum", "cummin", "cummax", "cumcount")}
            for i in range(n):
                if mask is not None and not mask[i]:
                    continue
                st = state.setdefault(int(codes[i]), dict(s=0, lo=None, hi=None, c=0))
                v = py[i]
                st["s"] += v
                st["lo"] = v if st["lo"] is None else min(st["lo"], v)
                st["hi"] = v if st["hi"] is None else max(st["hi"], v)
                exp["cumsum"][i], exp["cummin"][i], exp["cummax"][i], exp["cumcount"][i] = \
                    st["s"], st["lo"], st["hi"], st["c"]
                st["c"] += 1
            for op in ("cumsum", "cummin", "cummax", "cumcount"):
                res.execs += 1
                tag = f"{op} group sizes {S}/{S + 3} {kk} keys {vd} values mask={mname}"
                try:
                    g = GroupBy(keys)
                    out = g.cumcount(mask=mask) if op == "cumcount" else getattr(g, op)(vals, mask=mask)
                    got = np.asarray(out)
                except Exception as e:  # noqa
                    res.fail("total", f"{tag}: raised {type(e).__name__}: {str(e)[:100]}")
                    continue
                if len(got) != n:
                    res.fail("values", f"{tag}: {len(got)} rows for {n}")
                    continue
                for i in range(n):
                    if exp[op][i] is not None and not (float(got[i]) == float(exp[op][i])):
                        res.fail("values", f"{tag}: row {i} (the group's row {i // 2}): expected "
                                           f"{exp[op][i]} got {got[i]}")
                        break
                if op in ("cummin", "cummax") and vd != "f8" and got.dtype.kind not in "iu":
                    res.fail("dtype", f"{tag}: {vals.dtype} in, {got.dtype} out")
        seams.reset()
        return res


def subspaces(tier, seed):
    q = tier == "quick"
    S = CumSpace
    sp = []
    if q:
        sp += [S("f8-A3-n1to3", 3, 1, 3, seed=seed), S("f8-A2-n4", 2, 4, 4, seed=seed)]
    else:
        sp += [S("f8-A3-n1to4", 3, 1, 4, seed=seed), S("f8-A2-n5to6", 2, 5, 6, seed=seed)]
    h = 3 if q else 4
    for vd in ("f4", "i8big", "i8", "i4", "b", "M8[ns]", "M8[us]", "m8[ns]", "m8[us]") + \
            (() if q else ("i2", "u1", "u8", "M8[s]")):
        sp.append(S(f"{vd}-n1to{h}", 2 if q else 3, 1, h, vdtype=vd, seed=seed))
    sp.append(S(f"f8-chunkwise-n1to{h}", 2 if q else 3, 1, h, rep="chunkwise", seed=seed))
    sp.append(S(f"M8[ns]-chunkwise-n1to{h}", 2, 1, h, vdtype="M8[ns]", rep="chunkwise", seed=seed))
    sp.append(S(f"i8big-strkeys-n1to{h}", 2, 1, h, vdtype="i8big", keykind="str_obj", seed=seed))
    sp.append(LongCumSpace(tier, seed))
    return sp
