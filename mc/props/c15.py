"""C15 - head/tail/nth select exactly the requested rows of each group (keep_input_index=True)."""
from __future__ import annotations

import io
import contextlib

import numpy as np
import pandas as pd

from .. import concrete as C
from .. import gbh
from .. import sched
from .. import words as W
from ..engine import Result, Subspace
from .. import env
from .c01 import row_alphabet

PROPERTY_ID = "C15"
TECHNIQUE = ("bounded exhaustive enumeration of group interleavings x every n from 0 to beyond the "
             "largest group (negative n for nth) x value shapes x input index kinds x sort x key "
             "representation, plus a finite boundary family around the 16-bit counter limits, on "
             "the real head/tail/nth against a direct reference selection")
RULE = ("case = one key word (incl. null keys) x configuration (values 1-D / 2 columns, input index "
        "kind, sort, contiguous / chunk-wise); every case runs head(n), tail(n), nth(n), nth(-n) for "
        "every n in 0..max group size+1; rows are identified through their distinct values; "
        "boundary case = group size x n around 32767/32768/65535/65536; non-trivial = a group with "
        ">= 2 rows or a null key")
ASSUMPTIONS = [
    'boundary family for narrow group codes: categorical (int8 / int16 codes) and boolean keys, group sizes around 127/128/255/256 and 32768, n around the same limits',
    "n <= 5 rows (quick) / 6 (thorough) in the exhaustive part, G <= 3",
    "only keep_input_index=True (the property's scope)",
    "order across groups is not constrained, only the relative order inside a group",
]

INDEXES = {
    "none": None,
    "range": lambda n: pd.RangeIndex(n),
    "shuffled": lambda n: pd.Index([7, 3, 9, 1, 5, 2, 8][:n], dtype="int64"),
    "strings": lambda n: pd.Index(list("qwertyu")[:n]),
    "duplicates": lambda n: pd.Index([1, 1, 2, 2, 1, 3, 2][:n], dtype="int64"),
}


def expected_positions(op, n_arg, ks):
    rows = {}
    for i, k in enumerate(ks):
        if k >= 0:
            rows.setdefault(k, []).append(i)
    out = {}
    for g, idx in rows.items():
        if op == "head":
            out[g] = idx[:n_arg]
        elif op == "tail":
            out[g] = idx[len(idx) - n_arg:] if n_arg <= len(idx) else list(idx)
            if n_arg == 0:
                out[g] = []
        else:
            if n_arg >= 0:
                out[g] = [idx[n_arg]] if n_arg < len(idx) else []
            else:
                out[g] = [idx[n_arg]] if -n_arg <= len(idx) else []
    return out


class SelectSpace(Subspace):
    shard = 60

    def __init__(self, name, G, lo, hi, index="none", cols=1, rep="contig", keykind="float", seed=0):
        self.name = name
        self.index, self.cols, self.rep, self.keykind, self.seed = index, cols, rep, keykind, seed
        alpha = [(k,) for k in W.K(G) if k >= 0 or gbh.key_can_null(keykind)]
        self.ws = W.WordSpace(alpha, lo, hi)
        self.warm_key = f"{rep}-{cols}"

    def size(self):
        return len(self.ws)

    def case(self, i):
        return dict(w=[list(k) for k in self.ws.at(i)], index=self.index, cols=self.cols,
                    rep=self.rep, keykind=self.keykind, seed=self.seed)

    def run(self, case):
        from groupby_lib import GroupBy

        res = Result()
        ks = [k[0] for k in case["w"]]
        n = len(ks)
        seed = case["seed"]
        keyarr, labels = gbh.make_key(ks, case["keykind"], seed)
        V, py = C.make_values([1] * n, "f8", seed)
        V2 = V * 3.0 + 0.5
        idxf = INDEXES[case["index"]]
        idx = None if idxf is None else idxf(n)
        orig_labels = list(range(n)) if idx is None else gbh.norm_labels(idx)
        if case["cols"] == 1:
            vals = V if idx is None else pd.Series(V, index=idx, name="v")
        else:
            vals = pd.DataFrame({"a": V, "b": V2}, index=idx) if idx is not None else {"a": V, "b": V2}
        pos_of = {float(v): i for i, v in enumerate(V.tolist())}
        sizes = {}
        for k in ks:
            if k >= 0:
                sizes[k] = sizes.get(k, 0) + 1
        res.nontrivial = any(s >= 2 for s in sizes.values()) or any(k < 0 for k in ks)
        mx = max(sizes.values(), default=0)
        seams = env.seams()
        seams.set(executor=sched.NAMESPACE, threshold=1 if case["rep"] == "chunkwise" else None)
        sched.set_schedule(sched.Schedule())
        calls = []
        for a in range(0, mx + 2):
            calls += [("head", a), ("tail", a), ("nth", a)]
            if a:
                calls.append(("nth", -a))
        calls.append(("nth", -(mx + 2)))
        for sort in (True, False):
            for op, a in calls:
                res.execs += 1
                tag = f"{op}({a}) sort={sort}"
                try:
                    with contextlib.redirect_stdout(io.StringIO()):
                        g = GroupBy(keyarr, sort=sort)
                        out = getattr(g, op)(vals, a, keep_input_index=True)
                except Exception as e:  # noqa
                    res.fail("total", f"{tag}: raised {type(e).__name__}: {str(e)[:120]}")
                    continue
                exp = expected_positions(op, a, ks)
                want = sorted(p for idx_ in exp.values() for p in idx_)
                if isinstance(out, pd.DataFrame):
                    got_vals = out.iloc[:, 0].tolist()
                    second = out.iloc[:, 1].tolist() if out.shape[1] > 1 else None
                else:
                    got_vals = out.tolist()
                    second = None
                try:
                    got_pos = [pos_of[float(v)] for v in got_vals]
                except KeyError:
                    res.fail("values", f"{tag}: returned values {got_vals} are not input values")
                    continue
                if sorted(got_pos) != want:
                    res.fail("rows", f"{tag}: rows {sorted(got_pos)} expected {want} (keys {ks})")
                    continue
                out_labels = gbh.norm_labels(out.index)
                if out_labels != [orig_labels[p] for p in got_pos]:
                    res.fail("index", f"{tag}: index {out_labels} for rows {got_pos} "
                                      f"(input index {orig_labels})")
                if second is not None and [float(x) for x in second] != [float(V2[p]) for p in got_pos]:
                    res.fail("values", f"{tag}: second column does not belong to the selected rows")
                # original relative order inside every group
                for gk, idx_ in exp.items():
                    seq = [p for p in got_pos if ks[p] == gk]
                    if seq != sorted(seq):
                        res.fail("order", f"{tag}: rows of group {gk} come out as {seq}")
                        break
        seams.reset()
        return res


class BoundarySpace(Subspace):
    shard = 1

    def __init__(self, tier, seed=0):
        self.name = "counter-boundaries"
        q = tier == "quick"
        Ss = (32769, 65537, 70000) if q else (32766, 32767, 32768, 32769, 65535, 65536, 65537, 70000)
        self.cases = [(S, ng, "int") for S in Ss for ng in (1, 2)]
        if not q:
            self.cases.append((70000, -1, "int"))  # every n for nth on one group
        # narrow group codes: small categoricals and boolean keys carry int8 codes (limit 127/128),
        # categoricals with more than 127 categories int16 codes
        for S in ((128, 129, 300) if q else (126, 127, 128, 129, 130, 255, 256, 257, 300)):
            self.cases += [(S, 2, "cat8"), (S, 2, "bool")]
            if not q or S == 129:
                self.cases.append((S, 1, "cat8"))
        for S in ((32769,) if q else (32767, 32768, 32769, 40000)):
            self.cases.append((S, 2, "cat16"))

    def size(self):
        return len(self.cases)

    def warm_indices(self, n):
        return (0,)

    def case(self, i):
        S, ng, kk = self.cases[i]
        return dict(S=S, ngroups=ng, keykind=kk)

    def run(self, case):
        from groupby_lib import GroupBy

        res = Result()
        S, ng = case["S"], case["ngroups"]
        res.nontrivial = True
        every = ng == -1
        ng = 1 if every else ng
        n = S * ng
        keys = (np.arange(n) % ng).astype(np.int64)
        kk = case.get("keykind", "int")
        if kk == "cat8":
            keys = pd.Categorical.from_codes(keys.astype("i1"), categories=["a", "b", "c"])
        elif kk == "bool":
            keys = keys.astype(bool)
        elif kk == "cat16":
            keys = pd.Categorical.from_codes(keys.astype("i2"), categories=[f"c{i:03d}" for i in range(200)])
        vals = np.arange(n, dtype="f8")
        g = GroupBy(keys)
        B = [0, 1, 2, 32766, 32767, 32768, 32769, 65534, 65535, 65536, 65537, S - 1, S, S + 1]
        if kk in ("cat8", "bool"):
            B = [0, 1, 2, 126, 127, 128, 129, 130, 254, 255, 256, 257, S - 1, S, S + 1]
        S_ng = f"{S} x {ng} ({kk} keys)"
        ns_nth = sorted(set(B + [-b for b in B if b] + [-S - 1]))
        if every:
            ns_nth = list(range(-S - 1, S + 1))
        for a in ns_nth:
            res.execs += 1
            try:
                with contextlib.redirect_stdout(io.StringIO()):
                    out = g.nth(vals, a, keep_input_index=True)
            except Exception as e:  # noqa
                res.fail("total", f"nth({a}) group size {S_ng}: raised {type(e).__name__}: {str(e)[:80]}")
                if every:
                    break
                continue
            if a >= 0:
                want = [k + a * ng for k in range(ng)] if a < S else []
            else:
                want = [k + (S + a) * ng for k in range(ng)] if -a <= S else []
            if sorted(out.tolist()) != [float(w) for w in want] or sorted(out.index.tolist()) != want:
                res.fail("boundary", f"nth({a}) group size {S_ng}: rows {sorted(out.index.tolist())[:4]} "
                                     f"expected {want}")
                if every:
                    break
        if every:
            return res
        for a in sorted(set(b for b in B if b >= 0)):
            for op in ("head", "tail"):
                res.execs += 1
                try:
                    with contextlib.redirect_stdout(io.StringIO()):
                        out = getattr(g, op)(vals, a, keep_input_index=True)
                except Exception as e:  # noqa
                    res.fail("total", f"{op}({a}) group size {S_ng}: raised {type(e).__name__}: {str(e)[:80]}")
                    continue
                m = min(a, S)
                if op == "head":
                    want = np.arange(m * ng)
                else:
                    want = np.arange(n - m * ng, n)
                got = np.sort(out.index.to_numpy())
                if len(got) != len(want) or (got != want).any() or \
                        (np.sort(out.to_numpy()) != want.astype("f8")).any():
                    res.fail("boundary", f"{op}({a}) group size {S_ng}: {len(got)} rows, "
                                         f"expected {len(want)}")
        return res


def subspaces(tier, seed):
    q = tier == "quick"
    S = SelectSpace
    L = 5 if q else 6
    sp = [S(f"contig-noindex-n0to{L}", 3, 0, L, seed=seed)]
    h = 4 if q else 5
    for ix in ("range", "shuffled", "strings", "duplicates"):
        sp.append(S(f"contig-{ix}-n1to{h}", 3, 1, h, index=ix, seed=seed))
    sp.append(S(f"contig-2cols-shuffled-n1to{h}", 3, 1, h, index="shuffled", cols=2, seed=seed))
    sp.append(S(f"contig-2cols-noindex-n1to{h}", 2, 1, h, cols=2, seed=seed))
    sp.append(S(f"chunkwise-noindex-n1to{L}", 3, 1, L, rep="chunkwise", seed=seed))
    sp.append(S(f"chunkwise-shuffled-n1to{h}", 3, 1, h, rep="chunkwise", index="shuffled", seed=seed))
    for kk in ("str_obj", "cat", "int"):
        sp.append(S(f"contig-{kk}-shuffled-n1to{h}", 3, 1, h, index="shuffled", keykind=kk, seed=seed))
    sp.append(BoundarySpace(tier, seed))
    return sp
