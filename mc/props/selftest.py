"""Oracle self-test: the pure-Python reference model against pandas' own groupby, on every word.

No library code is involved: this guards the *oracle* (the main false-alarm risk).  Run with
`./check selftest`; its evidence goes to .cache/selftest (it is not a property check)."""
from __future__ import annotations

import math
import warnings

import numpy as np
import pandas as pd

from .. import refmodel as R
from .. import words as W
from ..engine import Result, Subspace

PROPERTY_ID = "SELFTEST"
TECHNIQUE = "exhaustive enumeration of row words; reference model vs pandas groupby (no library code)"
RULE = "case = one word over rows (key incl. null, value null/non-null); every operation pandas defines identically"
ASSUMPTIONS = ["pandas semantics: dropna=True groupby, min_count=0 sums, skipna cumulative ops, "
               "rolling windows counted in rows of the group, ewm(adjust=True, ignore_na=False)"]
U = (4.0, -1.0, 16.0, 2.0, -64.0, 8.0, 32.0)


def close(a, b):
    an = a is None or (isinstance(a, float) and math.isnan(a))
    bn = b is None or (isinstance(b, float) and math.isnan(b))
    if an or bn:
        return an and bn
    return abs(a - b) <= 1e-12 * max(1.0, abs(a), abs(b))


class OracleSpace(Subspace):
    shard = 200

    def __init__(self, name, G, lo, hi):
        self.name = name
        self.ws = W.WordSpace(W.A0(G), lo, hi)

    def size(self):
        return len(self.ws)

    def case(self, i):
        return dict(w=[list(r) for r in self.ws.at(i)])

    def run(self, case):
        res = Result()
        w = case["w"]
        n = len(w)
        ks = [r[0] for r in w]
        vals = [U[i] if r[1] else None for i, r in enumerate(w)]
        res.nontrivial = n >= 2
        df = pd.DataFrame({"k": [np.nan if k < 0 else float(k) for k in ks],
                           "v": [np.nan if v is None else v for v in vals]})
        warnings.simplefilter("ignore")
        gb = df.groupby("k")["v"]
        labels = sorted({k for k in ks if k >= 0})
        rows = {g: [i for i in range(n) if ks[i] == g] for g in labels}
        # reductions
        for op, pfn in (("sum", lambda: gb.sum()), ("count", lambda: gb.count()), ("size", lambda: gb.size()),
                        ("min", lambda: gb.min()), ("max", lambda: gb.max()), ("first", lambda: gb.first()),
                        ("last", lambda: gb.last()), ("mean", lambda: gb.mean())):
            res.execs += 1
            p = pfn()
            if [float(x) for x in p.index] != [float(g) for g in labels]:
                res.fail("labels", f"{op}: pandas labels {list(p.index)} reference {labels}")
                continue
            for g in labels:
                ev = R.reduce_values(op, [vals[i] for i in rows[g]])
                pv = p.loc[float(g)]
                if not close(None if ev is None else float(ev), float(pv)):
                    res.fail("reduce", f"{op}: group {g}: reference {ev} pandas {pv}")
                    break
        # cumulative (skipna): compared at rows holding a value (pandas leaves NaN at null rows)
        for op, pfn in (("cumsum", lambda: gb.cumsum()), ("cummin", lambda: gb.cummin()),
                        ("cummax", lambda: gb.cummax()), ("cumcount", lambda: df.groupby("k").cumcount())):
            res.execs += 1
            p = pfn().tolist()
            exp, defined = R.cumulative(op, ks, vals)
            for i in range(n):
                if ks[i] < 0 or not defined[i] or (op != "cumcount" and vals[i] is None):
                    continue
                if exp[i] == R.NEUTRAL:
                    continue
                if not close(float(exp[i]), float(p[i])):
                    res.fail("cumulative", f"{op}: row {i}: reference {exp[i]} pandas {p[i]}")
                    break
        # rolling
        for window in (1, 2, 3):
            for mp in range(1, window + 1):
                for op in ("sum", "mean", "min", "max"):
                    res.execs += 1
                    exp, defined = R.rolling(op, ks, vals, window, mp)
                    for g in labels:
                        sub = pd.Series([np.nan if vals[i] is None else vals[i] for i in rows[g]])
                        p = getattr(sub.rolling(window, min_periods=mp), op)().tolist()
                        for j, i in enumerate(rows[g]):
                            if defined[i] and not close(exp[i], p[j]):
                                res.fail("rolling", f"{op} window={window} min_periods={mp}: row {i}: "
                                                    f"reference {exp[i]} pandas {p[j]}")
                                break
            for op in ("shift", "diff"):
                res.execs += 1
                exp, defined = R.rolling(op, ks, vals, window)
                p = (gb.shift(window) if op == "shift" else gb.diff(window)).tolist()
                for i in range(n):
                    if ks[i] >= 0 and defined[i] and not close(exp[i], p[i]):
                        res.fail("shift-diff", f"{op} window={window}: row {i}: reference {exp[i]} pandas {p[i]}")
                        break
        # EMA: pandas ewm(adjust=True, ignore_na=False) per group, compared at valid rows
        for alpha in (0.25, 0.5, 1.0):
            res.execs += 1
            exp = R.ema(ks, vals, alpha=alpha)
            for g in labels:
                sub = pd.Series([np.nan if vals[i] is None else vals[i] for i in rows[g]])
                p = sub.ewm(alpha=alpha, adjust=True, ignore_na=False).mean().tolist()
                for j, i in enumerate(rows[g]):
                    if vals[i] is not None and not close(exp[i], p[j]):
                        res.fail("ema", f"alpha={alpha}: row {i}: reference {exp[i]} pandas {p[j]}")
                        break
        return res


def subspaces(tier, seed):
    if tier == "quick":
        return [OracleSpace("oracle-A0_3-n0to4", 3, 0, 4), OracleSpace("oracle-A0_2-n5", 2, 5, 5)]
    return [OracleSpace("oracle-A0_3-n0to5", 3, 0, 5), OracleSpace("oracle-A0_2-n6", 2, 6, 6)]
