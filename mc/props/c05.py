"""C05 - a mask is equivalent to filtering the rows first (differential on the implementation)."""
from __future__ import annotations

import numpy as np

from .. import concrete as C
from .. import gbh
from .. import ops as O
from .. import refmodel as R
from .. import sched
from .. import words as W
from ..engine import Result, Subspace
from .. import env
from .c01 import row_alphabet, _m

PROPERTY_ID = "C05"
TECHNIQUE = ("bounded exhaustive enumeration of row words x masks of every accepted kind; "
             "differential oracle on the real implementation: op(keys, values, mask) vs "
             "op(keys[sel], values[sel]) for every maskable operation")
RULE = ("case = one word over rows (key incl. null, value null/non-null, mask bit) x key "
        "representation (contiguous / chunk-wise) [x every slice / every position list for the "
        "slice and positional sub-spaces]; every case runs every maskable catalogue operation "
        "twice (masked, pre-filtered); non-trivial = some but not all rows are selected")
ASSUMPTIONS = [
    "n <= 4 rows (quick) / 5 (thorough), G <= 3 labels",
    "operations run with fixed small arguments (window 2-3, alpha 0.5, halflife 1.5, q=[.25,.75])",
    "slices without step for chunk-wise keys (the library documents stepped slices as unsupported there)",
    "observed_only=False and the un-maskable accessors are outside this relation",
]

EXCLUDE = ("sum_obsF", "size_obsF")


class MaskSpace(Subspace):
    shard = 40

    def __init__(self, name, G, lo, hi, keys=("float",), vdtype="f8", mask="bool", threshold=None,
                 fanout=None, opnames=None, seed=0, plain=0):
        self.name = name
        self.keys, self.vdtype, self.mask = tuple(keys), vdtype, mask
        self.threshold, self.fanout, self.seed = threshold, fanout, seed
        alpha = row_alphabet(G, len(keys), [gbh.key_can_null(k) for k in keys],
                             C.can_null(vdtype), mask in ("bool", "bool_series"))
        if plain:
            # position-driven sub-spaces (slices, positions): keys 0/1 [+ null], all values non-null
            alpha = [((0,), 1), ((1,), 1)] + ([((-1,), 1)] if plain == 3 else [])
        self.ws = W.WordSpace(alpha, lo, hi)
        self.opnames = opnames
        self.warm_key = f"{vdtype}-{threshold}-{mask}"

    def size(self):
        return len(self.ws)

    def case(self, i):
        return dict(w=[[list(r[0])] + list(r[1:]) for r in self.ws.at(i)], keys=list(self.keys),
                    vdtype=self.vdtype, mask=self.mask, threshold=self.threshold,
                    fanout=self.fanout, ops=self.opnames, seed=self.seed)

    def run(self, case):
        from groupby_lib import GroupBy

        res = Result()
        d = gbh.Data(case["w"], case["keys"], case["vdtype"], case["seed"])
        n = d.n
        mk = case["mask"]
        chunked = case.get("threshold") is not None
        if mk in ("bool", "bool_series"):
            mrefs = [list(d.ms)]
        elif mk == "slice":
            mrefs = [("slice",) + s for s in W.all_slices(n, (None,) if chunked else (None, 2, -1))]
        elif mk == "pos":
            mrefs = [("pos", list(p)) for p in W.position_lists(n, 3)]
            if n:
                mrefs += [("pos", [n - 1, 0]), ("pos", [-1]), ("pos", list(range(n)))]
        else:
            raise ValueError(mk)
        vkind = d.V.dtype.kind
        kind_for_ops = "bool" if mk.startswith("bool") else mk
        opnames = case.get("ops") or O.names(mask_kind=kind_for_ops, vkind=vkind, exclude=EXCLUDE)
        seams = env.seams()
        seams.set(executor=sched.NAMESPACE, threshold=case.get("threshold"),
                  fanout=case.get("fanout"))
        sched.set_schedule(sched.Schedule())
        for mref in mrefs:
            sel = R.selected_positions(n, mref)
            if 0 < len(set(sel)) < n or len(sel) != len(set(sel)):
                res.nontrivial = True
            dd = d.take(sel)
            cf = d.ctx(mref, "series" if mk == "bool_series" else "ndarray")
            cd = dd.ctx(None)
            for name in opnames:
                op = O.OPS[name]
                if kind_for_ops not in op.masks or vkind not in op.vkinds:
                    continue
                res.execs += 2
                tag = f"{name} mask={_m(mref)}"
                om = gbh.call(lambda: op.fn(GroupBy(d.keyarg), cf))
                of = gbh.call(lambda: op.fn(GroupBy(dd.keyarg), cd))
                nsel_grouped = sum(1 for i in sel if d.gids[i] is not None)
                if nsel_grouped == 0:
                    # empty selection: required is only "no exception"
                    if om.raised:
                        res.fail("total", f"{tag}: nothing selected: raised {om.raised}")
                    continue
                if om.raised or of.raised:
                    if om.raised and of.raised:
                        continue
                    if om.raised:
                        res.fail("total", f"{tag}: raised {om.raised} (filtered input is fine)")
                    else:
                        res.fail("total", f"{tag}: returned, but the filtered input raises {of.raised}")
                    continue
                if op.kind == "reduce":
                    bad = gbh.same_mapping(om, of, ordered=False)
                    if bad:
                        res.fail("reduce", f"{tag}: {bad}")
                elif op.kind == "aligned":
                    if len(om.labels) != n:
                        res.fail("aligned", f"{tag}: {len(om.labels)} rows out for {n} rows in")
                        continue
                    cols = list(om.values)
                    colsf = list(of.values)
                    bad = None
                    for j, i in enumerate(sel):
                        if d.gids[i] is None:
                            continue
                        a = tuple(om.values[c][i] for c in cols)
                        b = tuple(of.values[c][j] for c in colsf)
                        if not gbh.veq(a, b):
                            bad = f"selected row {i}: {a} vs {b} on the filtered data"
                            break
                    if bad:
                        res.fail("aligned", f"{tag}: {bad}")
                        if name in ("ema_alpha", "ema_halflife"):
                            # documented actual behaviour of the known finding: mask == null value
                            self._ema_as_null(res, d, mref, name, om, op, GroupBy)
                else:  # gsorted: (label, original index) -> value; only selected rows are constrained
                    selset = set(sel)
                    keep = [j for j, lab in enumerate(om.labels) if lab[-1] in selset]
                    om.labels = [om.labels[j] for j in keep]
                    om.values = {c: [v[j] for j in keep] for c, v in om.values.items()}
                    bad = gbh.same_mapping(om, of, ordered=True)
                    if bad:
                        res.fail(op.kind, f"{tag}: {bad}")
        seams.reset()
        return res

    @staticmethod
    def _ema_as_null(res, d, mref, name, om, op, GroupBy):
        V = d.V.astype("f8").copy()
        V[~np.array(mref, dtype=bool)] = np.nan
        c = O.Ctx(V=V, M=None, n=d.n)
        res.execs += 1
        on = gbh.call(lambda: op.fn(GroupBy(d.keyarg), c))
        col, coln = next(iter(om.values)), None if on.raised else next(iter(on.values))
        if on.raised or any(not gbh.veq(om.values[col][i], on.values[coln][i])
                            for i in range(d.n) if mref[i] and d.gids[i] is not None):
            res.fail("ema-mask-as-null", f"{name}: masked EMA differs from the EMA with masked "
                                         f"values set to null")


SUB = ["size", "sum", "mean", "first", "last", "var", "median", "sum_t", "count_t", "cumsum",
       "cummax", "rolling_sum", "rolling_max", "shift", "diff", "ema_alpha", "ema_timed",
       "rolling_sum_g"]
SL8 = ["size", "sum", "mean", "first", "last", "var", "sum_t", "count_t"]
SL3 = ["sum", "first", "size_t"]
SUB8 = ["sum", "first", "var", "sum_t", "cumsum", "rolling_max", "shift", "ema_timed", "ema_alpha_g"]


def subspaces(tier, seed):
    q = tier == "quick"
    S = MaskSpace
    sp = []
    if q:
        sp += [S("bool-contig-A3-n1to3", 3, 1, 3, seed=seed),
               S("bool-contig-A2-n4-subset", 2, 4, 4, opnames=SUB8, seed=seed),
               S("bool-chunkwise-A2-n1to3", 2, 1, 3, threshold=1, seed=seed),
               S("bool-chunkwise-A2-n4-subset", 2, 4, 4, threshold=1, opnames=SUB8, seed=seed)]
    else:
        sp += [S("bool-contig-A3-n1to4", 3, 1, 4, seed=seed),
               S("bool-contig-A2-n5-subset", 2, 5, 5, opnames=SUB, seed=seed),
               S("bool-chunkwise-A3-n1to4", 3, 1, 4, threshold=1, seed=seed),
               S("bool-chunkwise-A2-n5-subset", 2, 5, 5, threshold=1, opnames=SUB, seed=seed),
               S("bool-chunkwise-fanout2-A3-n1to3", 3, 1, 3, threshold=1, fanout=2, seed=seed)]
    sp.append(S("boolseries-contig-n1to3", 2, 1, 3, mask="bool_series", opnames=SUB, seed=seed))
    sp.append(S("slice-contig-n0to3", 2, 0, 3, mask="slice", plain=3, opnames=SL8, seed=seed))
    sp.append(S("slice-chunkwise-n4", 2, 4, 4 if q else 5, mask="slice", threshold=1, plain=2,
                opnames=SL3 if q else SL8, seed=seed))
    sp.append(S("slice-chunkwise-fanout2-n1to3", 2, 1, 3, mask="slice", threshold=1, fanout=2,
                plain=3, opnames=SL3 if q else SL8, seed=seed))
    sp.append(S("pos-contig-n1to3", 2, 1, 3, mask="pos", plain=3, opnames=SL8, seed=seed))
    sp.append(S("pos-chunkwise-n1to3", 2, 1, 3, mask="pos", threshold=1, plain=3, opnames=SL8,
                seed=seed))
    if not q:
        sp.append(S("slice-contig-rich-n1to3", 2, 1, 3, mask="slice", seed=seed))
        sp.append(S("pos-chunkwise-fanout2-n4", 2, 4, 4, mask="pos", threshold=1, fanout=2, plain=2,
                    opnames=SL8, seed=seed))
    for vd in ("i8", "M8[ns]") + (() if q else ("f4", "m8[ns]", "b")):
        hv = 2 if q else 3
        sp.append(S(f"bool-{vd}-contig-n1to{hv}", 2, 1, hv, vdtype=vd, seed=seed))
        sp.append(S(f"bool-{vd}-chunkwise-n1to{hv}", 2, 1, hv, vdtype=vd, threshold=1, seed=seed))
    sp.append(S("bool-2keys-n1to2", 2, 1, 2, keys=("float", "str_obj"), seed=seed))
    sp.append(S("bool-cat-n1to3", 2, 1, 3, keys=("cat",), opnames=SUB, seed=seed))
    return sp
