"""C16 - variance, quantiles and composite statistics match their definitions."""
from __future__ import annotations

import io
import contextlib
import math
import warnings
from fractions import Fraction

import numpy as np
import pandas as pd

from .. import concrete as C
from .. import gbh
from .. import ops as O
from .. import refmodel as R
from .. import sched
from .. import words as W
from ..engine import Result, Subspace
from .. import env
from .c01 import row_alphabet

PROPERTY_ID = "C16"
TECHNIQUE = ("bounded exhaustive enumeration of row words x masks x a magnitude grid (offset x "
             "scale) for var/std against exact rational two-pass variance with a stated rounding "
             "bound; median/quantile against numpy on each group's selected values; apply against "
             "direct per-group calls; relational facets agg(list)==individual calls, ratio==sum/sum, "
             "densities==shares")
RULE = ("case = one word over rows (key incl. null, value null/non-null, mask bit) [x grid point]; "
        "every case runs var/std (ddof 0,1), median, quantile (5 q lists, ascending or not), apply with scalar / "
        "fixed-length / input-aligned functions on 1-2 columns, agg(list), ratio, subset_ratio, "
        "density; non-trivial = a group with >= 2 selected non-null values")
ASSUMPTIONS = [
    'q lists that are not ascending ([0.75, 0.25], [0.5, 0, 1]) compared per (label, q)',
    "n <= 4 rows (quick) / 5 (thorough), G <= 2-3",
    "variance bound: |var_lib - var_exact| <= 16*n*eps*max|x|^2/max(1,n-ddof) (one-pass formula; "
    "'proportional to the squared magnitude' in the statement)",
    "magnitudes outside the grid offset in {0,1,1e3,1e6,1e8} x scale in {1/8,1,1024} are not covered",
    "numpy.median / numpy.quantile are the stated reference, applied to the group's selected values "
    "(nulls included, as numpy does)",
]

EPS = 2.0 ** -52
GRID = [(o, s) for o in (0.0, 1.0, 1e3, 1e6, 1e8) for s in (0.125, 1.0, 1024.0)]
QS = ([0.5], [0.25, 0.75], [0.0, 0.5, 1.0], [0.75, 0.25], [0.5, 0.0, 1.0])  # also lists that are not ascending


def _span(x):
    return x.max() - x.min()


def _two(x):
    return np.array([x.min(), x.max()])


def _demean(x):
    return x - x.mean()


class StatSpace(Subspace):
    shard = 20

    def __init__(self, name, G, lo, hi, grid=False, rep="contig", seed=0, keykind="float",
                 with_mask=True, vdtype="f8"):
        self.name, self.grid, self.rep, self.seed, self.keykind = name, grid, rep, seed, keykind
        self.vdtype = vdtype
        alpha = row_alphabet(G, 1, [gbh.key_can_null(keykind)], C.can_null(vdtype), with_mask)
        self.ws = W.WordSpace(alpha, lo, hi)
        self.warm_key = f"{grid}"

    def size(self):
        return len(self.ws)

    def case(self, i):
        return dict(w=[[list(r[0])] + list(r[1:]) for r in self.ws.at(i)], grid=self.grid,
                    rep=self.rep, seed=self.seed, keykind=self.keykind, vdtype=self.vdtype)

    def run(self, case):
        from groupby_lib import GroupBy

        res = Result()
        vdtype = case.get("vdtype", "f8")
        d = gbh.Data(case["w"], (case["keykind"],), vdtype, case["seed"])
        is_float = d.V.dtype.kind == "f" and d.V.dtype.itemsize == 8
        n = d.n
        ms = list(d.ms) if d.ms is not None else [1] * n
        seams = env.seams()
        seams.set(executor=sched.NAMESPACE, threshold=1 if case["rep"] == "chunkwise" else None)
        sched.set_schedule(sched.Schedule())
        M = np.array(ms, dtype=bool)

        def G_():
            return GroupBy(d.keyarg)

        def call(f):
            with warnings.catch_warnings():
                warnings.simplefilter("ignore")
                return gbh.call(f)

        for masked in ((False, True) if 0 in ms else (False,)):
            mref = ms if masked else None
            Mo = M if masked else None
            mtag = "".join(map(str, ms)) if masked else "none"
            rows = {}
            for i, g in enumerate(d.gids):
                if g is not None and (mref is None or mref[i]):
                    rows.setdefault(g, []).append(i)
            if any(sum(1 for i in idx if d.py[i] is not None) >= 2 for idx in rows.values()):
                res.nontrivial = True
            order = sorted(rows, key=d.label_of)
            labs = [d.label_of(g) for g in order]
            # ------------------------------------------------------------- var / std
            grid = GRID if case["grid"] else [(0.0, 1.0), (1e6, 1.0)]
            if not is_float:
                grid = [(0, 1)]  # integer / float32 values as they are (tables near the dtype limits)
            for off, sc in grid:
                if is_float:
                    V = d.V * sc + off
                    py = [None if v is None else float(np.float64(v) * sc + off) for v in d.py]
                else:
                    V = d.V
                    py = [None if v is None else (float(v) if d.V.dtype.kind == "f" else int(v)) for v in d.py]
                for ddof in (0, 1):
                    for fn in ("var", "std"):
                        res.execs += 1
                        tag = f"{fn} ddof={ddof} offset={off} scale={sc} mask={mtag}"
                        o = call(lambda: getattr(G_(), fn)(V, mask=Mo, ddof=ddof))
                        if o.raised:
                            res.fail("total", f"{tag}: raised {o.raised}")
                            continue
                        if not rows:
                            continue
                        got = dict(zip(o.labels, next(iter(o.values.values()))))
                        if set(got) != set(labs):
                            res.fail("labels", f"{tag}: labels {o.labels} expected {labs}")
                            continue
                        for g, lab in zip(order, labs):
                            vals = [py[i] for i in rows[g] if py[i] is not None]
                            ev = R.variance(vals, ddof)
                            gv = got[lab]
                            if ev is None:
                                if gv is not None:
                                    res.fail("variance", f"{tag}: group {lab}: {len(vals)} values, expected null got {gv}")
                                    break
                                continue
                            if gv is None:
                                res.fail("variance", f"{tag}: group {lab}: expected {float(ev)} got null")
                                break
                            k = len(vals)
                            mx = max(abs(v) for v in vals)
                            bound = 16 * k * EPS * mx * mx / max(1, k - ddof) + 1e-300
                            if fn == "var":
                                err = abs(Fraction(gv) - ev)
                                if err > bound:
                                    res.fail("variance", f"{tag}: group {lab}: var {gv} exact {float(ev)} "
                                                         f"error {float(err):.3g} > bound {bound:.3g}")
                                    break
                            else:
                                # std = sqrt(var): allow the propagated bound
                                ref = math.sqrt(float(ev))
                                lo = math.sqrt(max(0.0, float(ev) - bound))
                                hi = math.sqrt(float(ev) + bound)
                                if gv != gv or not (lo - 1e-12 * max(1, ref) <= gv <= hi + 1e-12 * max(1, ref)):
                                    # negative variance from cancellation -> NaN std is inside the bound
                                    if gv != gv and float(ev) <= bound:
                                        continue
                                    res.fail("variance", f"{tag}: group {lab}: std {gv} expected {ref}")
                                    break
            if not is_float:
                continue
            # ------------------------------------------------------------- median / quantile
            with warnings.catch_warnings():
                warnings.simplefilter("ignore")
                res.execs += 1
                o = call(lambda: G_().median(d.V, mask=Mo))
                tag = f"median mask={mtag}"
                if o.raised:
                    res.fail("total", f"{tag}: raised {o.raised}")
                elif rows:
                    got = dict(zip(o.labels, next(iter(o.values.values()))))
                    exp = {d.label_of(g): gbh.norm_any(np.median(d.V[idx])) for g, idx in rows.items()}
                    bad = self._cmp(got, exp)
                    if bad:
                        res.fail("median", f"{tag}: {bad}")
                for q in QS:
                    res.execs += 1
                    o = call(lambda: G_().quantile(d.V, q=q, mask=Mo))
                    tag = f"quantile q={q} mask={mtag}"
                    if o.raised:
                        res.fail("total", f"{tag}: raised {o.raised}")
                        continue
                    if not rows:
                        continue
                    got = dict(zip(o.labels, next(iter(o.values.values()))))
                    exp = {}
                    for g, idx in rows.items():
                        qs = np.quantile(d.V[idx], q)
                        for qq, v in zip(q, qs):
                            exp[(d.label_of(g), qq)] = gbh.norm_any(v)
                    bad = self._cmp(got, exp)
                    if bad:
                        res.fail("quantile", f"{tag}: {bad}")
            # ------------------------------------------------------------- apply
            for fname, f, kind in (("span", _span, "scalar"), ("two", _two, "fixed"),
                                   ("demean", _demean, "aligned")):
                for cols in (1, 2):
                    res.execs += 1
                    vals = d.V if cols == 1 else {"a": d.V, "b": d.V2}
                    tag = f"apply {fname} cols={cols} mask={mtag}"
                    o = call(lambda: G_().apply(vals, f, mask=Mo))
                    if o.raised:
                        res.fail("total", f"{tag}: raised {o.raised}")
                        continue
                    if not rows:
                        continue
                    srcs = [d.V] if cols == 1 else [d.V, d.V2]
                    names = list(o.values)
                    if len(names) != cols:
                        res.fail("apply", f"{tag}: {len(names)} columns")
                        continue
                    for src, col in zip(srcs, names):
                        got = dict(zip(o.labels, o.values[col]))
                        exp = {}
                        with warnings.catch_warnings():
                            warnings.simplefilter("ignore")
                            for g, idx in rows.items():
                                r = f(src[idx])
                                lab = d.label_of(g)
                                if kind == "scalar":
                                    exp[lab] = gbh.norm_any(r)
                                elif kind == "fixed":
                                    for j, v in enumerate(r):
                                        exp[(lab, j)] = gbh.norm_any(v)
                                else:
                                    for i, v in zip(idx, r):
                                        exp[(lab, i)] = gbh.norm_any(v)
                        if kind == "aligned" and len(rows) == 1 and False:
                            pass
                        bad = self._cmp(got, exp)
                        if bad:
                            res.fail("apply", f"{tag} [{col}]: {bad}")
                            break
            # ------------------------------------------------------------- composites
            res.execs += 3
            oa = call(lambda: G_().agg(d.V, ["sum", "max", "count"], mask=Mo))
            o1 = {f: call(lambda f=f: getattr(G_(), f)(d.V, mask=Mo)) for f in ("sum", "max", "count")}
            if oa.raised:
                res.fail("total", f"agg(list) mask={mtag}: raised {oa.raised}")
            elif rows:
                for f in ("sum", "max", "count"):
                    if f not in oa.values:
                        res.fail("agg-list", f"agg(list) mask={mtag}: columns {list(oa.values)}")
                        break
                    a = dict(zip(oa.labels, oa.values[f]))
                    b = dict(zip(o1[f].labels, next(iter(o1[f].values.values()))))
                    bad = self._cmp(a, b)
                    if bad:
                        res.fail("agg-list", f"agg(list) mask={mtag} column {f}: {bad}")
                        break
            res.execs += 2
            orat = call(lambda: G_().ratio(d.V, d.V2, mask=Mo))
            o2 = call(lambda: G_().sum(d.V2, mask=Mo))
            if orat.raised:
                res.fail("total", f"ratio mask={mtag}: raised {orat.raised}")
            elif rows and not o1["sum"].raised and not o2.raised:
                a = dict(zip(orat.labels, next(iter(orat.values.values()))))
                s1 = dict(zip(o1["sum"].labels, next(iter(o1["sum"].values.values()))))
                s2 = dict(zip(o2.labels, next(iter(o2.values.values()))))
                exp = {l: (None if not s2[l] else s1[l] / s2[l]) for l in s1}
                bad = self._cmp(a, exp, allow_inf=True)
                if bad:
                    res.fail("ratio", f"ratio mask={mtag}: {bad}")
            # subset_ratio == agg over (subset & global) / agg over global
            if masked:
                res.execs += 1
                allm = np.ones(n, dtype=bool)
                osr = call(lambda: G_().subset_ratio(d.V, Mo, allm))
                if osr.raised:
                    res.fail("total", f"subset_ratio mask={mtag}: raised {osr.raised}")
                else:
                    allrows = {}
                    for i, g in enumerate(d.gids):
                        if g is not None:
                            allrows.setdefault(g, []).append(i)
                    exp = {}
                    for g, idx in allrows.items():
                        den = sum(d.py[i] for i in idx if d.py[i] is not None)
                        if g in rows:
                            num = sum(d.py[i] for i in rows[g] if d.py[i] is not None)
                            exp[d.label_of(g)] = None if den == 0 else num / den
                        else:
                            exp[d.label_of(g)] = None
                    got = dict(zip(osr.labels, next(iter(osr.values.values()))))
                    bad = self._cmp(got, exp, allow_inf=True)
                    if bad:
                        res.fail("subset-ratio", f"subset_ratio mask={mtag}: {bad}")
            # density of values: shares of the group sums
            res.execs += 1
            odv = call(lambda: G_().density(d.V, mask=Mo))
            if odv.raised:
                res.fail("total", f"density(values) mask={mtag}: raised {odv.raised}")
            elif rows:
                sums = {d.label_of(g): sum(d.py[i] for i in idx if d.py[i] is not None)
                        for g, idx in rows.items()}
                tot = sum(sums.values())
                if tot != 0:
                    got = dict(zip(odv.labels, next(iter(odv.values.values()))))
                    bad = self._cmp(got, {l: 100.0 * v / tot for l, v in sums.items()})
                    if bad:
                        res.fail("density", f"density(values) mask={mtag}: {bad}")
            # density (single key): shares in percent, adding up to 100
            res.execs += 1
            od = call(lambda: G_().density(mask=Mo))
            if od.raised:
                res.fail("total", f"density mask={mtag}: raised {od.raised}")
            elif rows:
                got = dict(zip(od.labels, next(iter(od.values.values()))))
                tot = sum(len(idx) for idx in rows.values())
                exp = {d.label_of(g): 100.0 * len(idx) / tot for g, idx in rows.items()}
                bad = self._cmp(got, exp)
                if bad:
                    res.fail("density", f"density mask={mtag}: {bad}")
                elif abs(sum(v for v in got.values() if v is not None) - 100.0) > 1e-9:
                    res.fail("density", f"density mask={mtag}: shares add up to {sum(got.values())}")
        seams.reset()
        return res

    @staticmethod
    def _cmp(got, exp, allow_inf=False):
        if set(got) != set(exp):
            return f"labels {sorted(map(str, got))} expected {sorted(map(str, exp))}"
        for k, ev in exp.items():
            gv = got[k]
            if allow_inf and ev is None and (gv is None or (isinstance(gv, float) and math.isinf(gv))):
                continue
            if not gbh.veq(ev, gv, rtol=1e-12):
                return f"at {k}: expected {ev} got {gv}"
        return None


def subspaces(tier, seed):
    q = tier == "quick"
    S = StatSpace
    sp = []
    if q:
        sp.append(S("A2-n1to3", 2, 1, 3, seed=seed))
        sp.append(S("A0_3-n3-grid", 3, 3, 3, grid=True, with_mask=False, seed=seed))
        sp.append(S("A0_2-n4-grid", 2, 4, 4, grid=True, with_mask=False, seed=seed))
    else:
        sp.append(S("A3-n1to4-grid", 3, 1, 4, grid=True, seed=seed))
        sp.append(S("A2-n5-grid", 2, 5, 5, grid=True, seed=seed))
    for vd in ("i4", "i8", "f4", "u1"):
        sp.append(S(f"var-{vd}-n1to{3 if q else 4}", 2, 1, 3 if q else 4, vdtype=vd, seed=seed))
    sp.append(S("A2-chunkwise-n1to3", 2, 1, 3, rep="chunkwise", seed=seed))
    sp.append(S("A2-strkeys-n1to3", 2, 1, 3, keykind="str_obj", seed=seed))
    return sp
