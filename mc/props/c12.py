"""C12 - same data in any supported container or dtype gives the same answer."""
from __future__ import annotations

import numpy as np
import pandas as pd

from .. import concrete as C
from .. import gbh
from .. import ops as O
from .. import sched
from .. import words as W
from ..engine import Result, Subspace
from .. import env
from .c01 import row_alphabet

PROPERTY_ID = "C12"
TECHNIQUE = ("bounded exhaustive enumeration of logical datasets x key container x value container "
             "(every composition into <= 3 chunks for chunked arrays, independently for keys and "
             "values) x value dtype; differential oracle against the all-NumPy execution of the "
             "real implementation; exactness/dtype facet for selection-type results")
RULE = ("case = one word over rows (key incl. null, value null/non-null) x value dtype; every case "
        "runs every operation for the NumPy baseline and for every key container (values NumPy) and "
        "every value container (keys NumPy), chunked containers with every composition, plus the "
        "joint key x value compositions on short words; facets: same labels/numbers, selection "
        "results are input elements, result dtype family (width, bool, unit, timezone), exact "
        "integer sums; non-trivial = >= 2 rows")
ASSUMPTIONS = [
    'RangeIndex keys (any start, positive and negative steps) against the same numbers as NumPy / pd.Index keys; Arrow nullable-integer values use whole numbers for every seed',
    'mixed-dtype frames: 2-3 value columns out of {int64, float64, float32, int32, int16, uint8, bool, datetime64[ns]} given together as list / dict / pandas frame / polars frame on NumPy, chunk-wise and every Arrow-chunked key layout; every result column compared (numbers and dtype) with the column reduced alone',
    "n <= 3 rows (quick) / 4-5 (thorough); G <= 2-3; <= 3 chunks",
    "nulls: NaN/NaT/None in NumPy and pandas-NumPy containers, Arrow nulls in Arrow-backed ones",
    "categorical keys are compared as label -> value mappings (their order rule is C11's business)",
    "int64 tables hold values near 2**54 (sums stay below 2**63)",
    "mixed-dtype frames: 2-3 columns out of {int64, float64, float32, int32, int16, uint8, bool, "
    "datetime64[ns]} as list / dict / pandas frame / polars frame on NumPy, chunk-wise and Arrow-chunked "
    "keys; every column compared with the column reduced alone",
]

RED = ("size", "count", "sum", "mean", "min", "max", "first", "last")
ALIGNED = ("cummin", "cummax", "cumsum", "shift", "diff", "rolling_min", "rolling_max", "min_t")
SELECT = {"min", "max", "first", "last", "cummin", "cummax", "shift", "rolling_min", "rolling_max", "min_t"}


def ops_for(vkind):
    if vkind == "M":
        return [o for o in RED + ALIGNED if o not in ("sum", "mean", "cumsum")]
    if vkind == "m":
        return [o for o in RED + ALIGNED if o not in ("mean",)]
    if vkind == "b":
        return [o for o in RED + ALIGNED if o not in ("diff", "rolling_min", "rolling_max", "shift")]
    return list(RED + ALIGNED)


def pa_type(dt: np.dtype, tz=None):
    import pyarrow as pa

    if dt.kind == "f":
        return pa.float64() if dt.itemsize == 8 else pa.float32()
    if dt.kind in "iu":
        return getattr(pa, f"{'u' if dt.kind == 'u' else ''}int{dt.itemsize * 8}")()
    if dt.kind == "b":
        return pa.bool_()
    if dt.kind == "M":
        return pa.timestamp(np.datetime_data(dt)[0], tz=tz)
    if dt.kind == "m":
        return pa.duration(np.datetime_data(dt)[0])
    raise TypeError(dt)


def py_list(arr):
    """numpy array -> python list with None for nulls (for Arrow construction)"""
    arr = np.asarray(arr)
    if arr.dtype.kind == "f":
        return [None if v != v else v for v in arr.tolist()]
    if arr.dtype.kind in "mM":
        return [None if v == C.INT_MIN else v for v in arr.view("i8").tolist()]
    return arr.tolist()


def to_container(arr, cont, comp=None, name=None, tz=None):
    import pyarrow as pa
    import polars as pl

    arr = np.asarray(arr)
    dt = arr.dtype
    if cont == "ndarray":
        return arr
    if cont == "pd_series":
        s = pd.Series(arr, name=name)
        return s.dt.tz_localize("UTC").dt.tz_convert(tz) if tz else s
    if cont == "pd_index":
        ix = pd.Index(arr, name=name)
        return ix.tz_localize("UTC").tz_convert(tz) if tz else ix
    if cont == "pd_categorical":
        return pd.Categorical(pd.Series(arr))
    typ = pa_type(dt, "UTC" if tz else None) if dt.kind != "O" else pa.string()
    pl_ = py_list(arr) if dt.kind != "O" else [None if v is None else v for v in arr.tolist()]
    if cont in ("pa_array", "pd_arrow", "polars"):
        a = pa.array(pl_, type=typ)
        if tz:
            a = a.cast(pa.timestamp(np.datetime_data(dt)[0], tz=tz))
        if cont == "pa_array":
            return a
        if cont == "pd_arrow":
            return pd.Series(a, dtype=pd.ArrowDtype(a.type), name=name)
        return pl.Series(name or "", a)
    if cont == "pa_chunked":
        parts, a0 = [], 0
        for c in comp:
            parts.append(pa.array(pl_[a0:a0 + c], type=typ))
            a0 += c
        return pa.chunked_array(parts, type=typ)
    raise ValueError(cont)


def dtype_family(dts: str):
    """coarse dtype description: (kind, width/unit, tz)"""
    s = str(dts).lower()
    tz = None
    for z in ("us/eastern", "utc"):
        if z in s:
            tz = z
    for unit in ("ns", "us", "ms", "s"):
        if f"[{unit}" in s and ("datetime" in s or "timestamp" in s):
            return ("M", unit, tz)
        if f"[{unit}" in s and ("timedelta" in s or "duration" in s):
            return ("m", unit, None)
    if "bool" in s:
        return ("b", 1, None)
    for k, nm in (("u", "uint"), ("i", "int"), ("f", "float"), ("f", "double")):
        if nm in s:
            w = "".join(ch for ch in s.split(nm)[1][:2] if ch.isdigit())
            return (k, int(w) if w else 64, None)
    return ("?", s, None)


KEY_CONTS = ("pd_series", "pd_index", "pd_categorical", "pd_arrow", "polars", "pa_array", "pa_chunked")
VAL_CONTS = ("pd_series", "pd_arrow", "polars", "pa_array", "pa_chunked")


class ContainerSpace(Subspace):
    shard = 12

    def __init__(self, name, G, lo, hi, vdtype="f8", keykind="float", tz=None, seed=0, joint=False,
                 key_conts=KEY_CONTS, val_conts=VAL_CONTS, arrow_int=None):
        self.name, self.vdtype, self.keykind, self.tz, self.seed = name, vdtype, keykind, tz, seed
        self.arrow_int = arrow_int
        self.joint, self.key_conts, self.val_conts = joint, key_conts, val_conts
        alpha = row_alphabet(G, 1, [gbh.key_can_null(keykind)], C.can_null(vdtype), False)
        self.ws = W.WordSpace(alpha, lo, hi)
        self.warm_key = f"{vdtype}"

    def size(self):
        return len(self.ws)

    def case(self, i):
        return dict(w=[[list(r[0])] + list(r[1:]) for r in self.ws.at(i)], vdtype=self.vdtype,
                    keykind=self.keykind, tz=self.tz, seed=self.seed, joint=self.joint,
                    key_conts=list(self.key_conts), val_conts=list(self.val_conts),
                    arrow_int=self.arrow_int)

    def run(self, case):
        from groupby_lib import GroupBy

        res = Result()
        d = gbh.Data(case["w"], (case["keykind"],), case["vdtype"], case["seed"])
        n = d.n
        res.nontrivial = n >= 2
        tz = case.get("tz")
        vkind = d.V.dtype.kind
        names = ops_for(vkind)
        seams = env.seams()
        seams.set(executor=sched.NAMESPACE)
        sched.set_schedule(sched.Schedule())
        karr = np.asarray(d.keys[0])
        arrow_int = case.get("arrow_int")
        if arrow_int:
            # the logical values of this sub-space are INTEGERS (the value tables of some seeds hold
            # fractions): the NumPy baseline carries the same whole numbers as floats with NaN for null
            def whole(v):
                i = int(round(float(v) * 16))
                return abs(i) % 251 if arrow_int.startswith("uint") else i
            ints_py = [None if v is None else whole(v) for v in py_list(d.V)]
            d.V = np.array([np.nan if v is None else float(v) for v in ints_py], dtype="f8")
            d.py = list(ints_py)
        inputs = set(v for v in d.py if v is not None)
        in_family = dtype_family(str(d.V.dtype) if not tz else f"datetime64[{np.datetime_data(d.V.dtype)[0]}, {tz}]")

        def val_container(cont, comp):
            if arrow_int and cont in ("pa_array", "pa_chunked", "pd_arrow", "polars"):
                # the same numbers as Arrow *integers* with Arrow nulls (NumPy has to use float/NaN)
                import pyarrow as pa
                ints = [None if v is None else int(v) for v in py_list(d.V)]
                typ = getattr(pa, arrow_int)()
                if cont == "pa_chunked":
                    parts, a0 = [], 0
                    for c in comp:
                        parts.append(pa.array(ints[a0:a0 + c], type=typ))
                        a0 += c
                    return pa.chunked_array(parts, type=typ)
                a = pa.array(ints, type=typ)
                if cont == "pa_array":
                    return a
                if cont == "pd_arrow":
                    return pd.Series(a, dtype=pd.ArrowDtype(typ))
                import polars as pl
                return pl.Series("", a)
            return to_container(d.V, cont, comp, tz=tz)

        def run_op(name, K, V):
            op = O.OPS[name]
            ctx = O.Ctx(V=V, M=None, n=n)
            return gbh.call(lambda: op.fn(GroupBy(K), ctx))

        base = {}
        Vbase = d.V if not tz else to_container(d.V, "pd_series", tz=tz)
        for name in names:
            res.execs += 1
            base[name] = run_op(name, karr, Vbase)
            b = base[name]
            if b.raised:
                res.fail("total", f"{name}: baseline (NumPy keys{' , tz-aware values' if tz else ''}) raised {b.raised}")
                continue
            self._exactness(res, f"{name} [numpy]", name, b, inputs, in_family, d, tz)

        variants = []
        for kc in case["key_conts"]:
            if case["keykind"].startswith("str") and kc in ("pd_categorical",):
                pass
            if kc == "pa_chunked":
                for comp in W.compositions(n, 3, 1):
                    variants.append((f"keys={kc}{comp}", ("k", kc, comp)))
            else:
                variants.append((f"keys={kc}", ("k", kc, None)))
        for vc in case["val_conts"]:
            if vc == "pa_chunked":
                for comp in W.compositions(n, 3, 1):
                    variants.append((f"values={vc}{comp}", ("v", vc, comp)))
            else:
                variants.append((f"values={vc}", ("v", vc, None)))
        if case.get("joint"):
            for kcomp in W.compositions(n, 3, 2):
                for vcomp in W.compositions(n, 3, 2):
                    variants.append((f"keys=pa_chunked{kcomp} values=pa_chunked{vcomp}",
                                     ("kv", kcomp, vcomp)))
            variants.append(("keys=polars values=polars", ("kv2", "polars", "polars")))
            variants.append(("keys=pd_arrow values=pd_arrow", ("kv2", "pd_arrow", "pd_arrow")))
            variants.append(("keys=pd_series values=pd_series", ("kv2", "pd_series", "pd_series")))
        for label, spec in variants:
            if d.V.dtype.kind in "mM" and np.datetime_data(d.V.dtype)[0] == "s" and "polars" in label:
                continue  # polars has no second resolution: not the same logical dtype
            try:
                if spec[0] == "k":
                    K, V = to_container(karr, spec[1], spec[2], name=None), Vbase
                elif spec[0] == "v":
                    K, V = karr, val_container(spec[1], spec[2])
                elif spec[0] == "kv":
                    K, V = to_container(karr, "pa_chunked", spec[1]), to_container(d.V, "pa_chunked", spec[2], tz=tz)
                else:
                    K, V = to_container(karr, spec[1]), to_container(d.V, spec[2], tz=tz)
            except Exception as e:  # noqa  container cannot hold this data (harness side)
                continue
            cat = spec[0] == "k" and spec[1] == "pd_categorical"
            for name in names:
                b = base[name]
                if b.raised:
                    continue
                res.execs += 1
                o = run_op(name, K, V)
                tag = f"{name} [{label}]"
                if o.raised:
                    res.fail("total", f"{tag}: raised {o.raised} (NumPy containers work)")
                    continue
                kind = O.OPS[name].kind
                if kind == "reduce":
                    bad = gbh.same_mapping(o, b, ordered=not cat)
                else:
                    bad = None
                    if len(o.labels) != len(b.labels):
                        bad = f"{len(o.labels)} rows vs {len(b.labels)}"
                    else:
                        co, cb = next(iter(o.values.values())), next(iter(b.values.values()))
                        for i in range(n):
                            if d.gids[i] is not None and not gbh.veq(co[i], cb[i]):
                                bad = f"row {i}: {co[i]} vs {cb[i]}"
                                break
                if bad:
                    res.fail("values", f"{tag}: {bad} (vs NumPy containers)")
                    continue
                if spec[0] in ("v", "kv", "kv2") and not arrow_int:
                    self._exactness(res, tag, name, o, inputs, in_family, d, tz)
        seams.reset()
        return res

    @staticmethod
    def _exactness(res, tag, name, o, inputs, in_family, d, tz):
        col = next(iter(o.values))
        vals = o.values[col]
        if name in SELECT:
            extra = [v for v in vals if v is not None and v not in inputs
                     and not (isinstance(v, (int, float)) and float(v) in {float(x) for x in inputs})]
            # sentinel for 'no value' in integer/bool results
            if extra and d.V.dtype.kind in "iub":
                s = C.sentinel(d.V.dtype)
                extra = [v for v in extra if v != s]
            if extra:
                res.fail("exactness", f"{tag}: {extra[0]} is not an element of the input")
            fam = dtype_family(o.dtypes[col])
            want = in_family
            ok = fam[0] == want[0] and (fam[1] == want[1] or fam[0] == "f") and \
                (fam[2] == want[2] or want[0] != "M")
            if name in ("shift", "rolling_min", "rolling_max") and want[0] in "iub":
                ok = True  # nulls have to be representable: float results are fine for ints
            if not ok:
                res.fail("dtype", f"{tag}: input {want} came back as {o.dtypes[col]}")
        if name == "sum" and d.V.dtype.kind in "iu":
            rows = {}
            for i, g in enumerate(d.gids):
                if g is not None:
                    rows.setdefault(g, []).append(i)
            exp = {d.label_of(g): sum(d.py[i] for i in idx) for g, idx in rows.items()}
            got = dict(zip(o.labels, vals))
            for lab, ev in exp.items():
                if lab in got and got[lab] != ev:
                    res.fail("integer-sum", f"{tag}: label {lab}: exact sum {ev} got {got[lab]}")
                    break


class FrameSpace(Subspace):
    """Several value columns of DIFFERENT dtypes given together (list, dict, pandas / polars frame)
    on every key representation: each column of the result must carry the numbers and the dtype of
    that column reduced alone with NumPy keys."""
    shard = 12
    COLSETS = {
        "i8+f8": ("i8big", "f8"),
        "f8+i4": ("f8", "i4"),
        "u1+f4+i8": ("u1", "f4", "i8big"),
        "M8+f8": ("M8[ns]", "f8"),
        "b+i2": ("b", "i2"),
    }
    OPS = ("count", "sum", "mean", "min", "max", "first", "last", "cummax", "cumsum", "max_t")

    def __init__(self, name, G, lo, hi, colset, seed=0):
        self.name, self.colset, self.seed = name, colset, seed
        alpha = row_alphabet(G, 1, [True], True, False)
        self.ws = W.WordSpace(alpha, lo, hi)
        self.warm_key = f"frame-{colset}"

    def size(self):
        return len(self.ws)

    def case(self, i):
        return dict(w=[[list(r[0])] + list(r[1:]) for r in self.ws.at(i)], colset=self.colset,
                    seed=self.seed)

    def run(self, case):
        import polars as pl
        from groupby_lib import GroupBy

        res = Result()
        dts = self.COLSETS[case["colset"]]
        d = gbh.Data(case["w"], ("float",), "f8", case["seed"])
        n = d.n
        res.nontrivial = n >= 2
        cols = []
        for j, dt in enumerate(dts):
            xs = d.xs if C.can_null(dt) else [1] * n
            arr, _ = C.make_values(xs, dt, case["seed"] + j)
            cols.append(arr)
        names = [f"c{j}" for j in range(len(cols))]
        seams = env.seams()
        sched.set_schedule(sched.Schedule())
        karr = np.asarray(d.keys[0])

        def fn(name):
            if name == "max_t":
                return lambda g, V: g.max(V, transform=True)
            return lambda g, V: getattr(g, name)(V)

        def okay(name, dt):
            k = np.dtype(C._np_name(dt)).kind
            if k == "M":
                return name not in ("sum", "mean", "cumsum")
            if k == "b":
                return name not in ("cumsum",)
            return True

        keyreps = [("numpy keys", dict(), lambda: karr),
                   ("chunk-wise keys", dict(threshold=1, fanout=2), lambda: karr)]
        if n >= 2:
            for comp in W.compositions(n, 3, 2):
                keyreps.append((f"pa_chunked keys {comp}", dict(),
                                lambda comp=comp: to_container(karr, "pa_chunked", comp)))
        conts = [("list", lambda: list(cols)),
                 ("dict", lambda: dict(zip(names, cols))),
                 ("DataFrame", lambda: pd.DataFrame(dict(zip(names, cols)))),
                 ("polars", lambda: pl.DataFrame(dict(zip(names, cols))))]
        for name in self.OPS:
            use = [j for j, dt in enumerate(dts) if okay(name, dt)]
            if len(use) < 2:
                continue
            single = {}
            seams.set(executor=sched.NAMESPACE)
            for j in use:
                res.execs += 1
                single[j] = gbh.call(lambda: fn(name)(GroupBy(karr), cols[j]))
            if any(o.raised for o in single.values()):
                continue  # single-column behaviour is C01/C12-single's business
            for klabel, seam, mk in keyreps:
                for clabel, mv in conts:
                    if clabel == "polars" and any(np.dtype(C._np_name(dts[j])).kind == "M" for j in use):
                        pass
                    seams.set(executor=sched.NAMESPACE, **seam)
                    res.execs += 1
                    sub = [cols[j] for j in use]
                    subn = [names[j] for j in use]
                    V = {"list": lambda: list(sub), "dict": lambda: dict(zip(subn, sub)),
                         "DataFrame": lambda: pd.DataFrame(dict(zip(subn, sub))),
                         "polars": lambda: pl.DataFrame(dict(zip(subn, sub)))}[clabel]()
                    o = gbh.call(lambda: fn(name)(GroupBy(mk()), V))
                    tag = f"{name} [{klabel}, values={clabel} {case['colset']}]"
                    if o.raised:
                        res.fail("total", f"{tag}: raised {o.raised} (each column alone works)")
                        continue
                    ocols = list(o.values)
                    if len(ocols) != len(use):
                        res.fail("values", f"{tag}: {len(ocols)} result columns for {len(use)} inputs")
                        continue
                    for pos, j in enumerate(use):
                        b = single[j]
                        bcol = next(iter(b.values))
                        if o.labels != b.labels:
                            res.fail("values", f"{tag}: labels {o.labels} vs {b.labels} (column alone)")
                            break
                        got, want = o.values[ocols[pos]], b.values[bcol]
                        if len(got) != len(want) or not all(gbh.veq(x, y) for x, y in zip(got, want)):
                            res.fail("values", f"{tag}: column {pos} ({dts[j]}): {got} vs {want} "
                                               f"(the column alone, NumPy keys)")
                            break
                        fo, fb = dtype_family(o.dtypes[ocols[pos]]), dtype_family(b.dtypes[bcol])
                        if clabel != "polars" and fo != fb:
                            res.fail("dtype", f"{tag}: column {pos} ({dts[j]}) came back as "
                                              f"{o.dtypes[ocols[pos]]}, alone it is {b.dtypes[bcol]}")
                            break
        seams.reset()
        return res


class RangeKeySpace(Subspace):
    """Keys that form an arithmetic progression given as pd.RangeIndex (any start, positive and
    negative steps), as the index of a Series key, and as NumPy / pd.Index arrays of the same numbers."""
    shard = 8
    RANGES = ((0, 1), (3, 1), (0, 2), (5, -1), (6, -2), (-2, 3), (0, -3))

    def __init__(self, name, lo, hi, seed=0):
        self.name, self.seed = name, seed
        self.ws = W.WordSpace([0, 1], lo, hi)
        self.warm_key = "rangekeys"

    def size(self):
        return len(self.ws) * len(self.RANGES)

    def case(self, i):
        wi, ri = divmod(i, len(self.RANGES))
        return dict(xs=list(self.ws.at(wi)), start=self.RANGES[ri][0], step=self.RANGES[ri][1], seed=self.seed)

    def run(self, case):
        from groupby_lib import GroupBy

        res = Result()
        xs = case["xs"]
        n = len(xs)
        res.nontrivial = n >= 2
        V, _ = C.make_values(xs, "f8", case["seed"])
        start, step = case["start"], case["step"]
        rng = pd.RangeIndex(start, start + step * n, step)
        karr = np.asarray(rng)
        seams = env.seams()
        seams.set(executor=sched.NAMESPACE)
        sched.set_schedule(sched.Schedule())
        variants = [("pd.RangeIndex", lambda: rng), ("pd.Index", lambda: pd.Index(karr)),
                    ("RangeIndex+ndarray (2 keys)", None)]
        for name in RED + ALIGNED:
            op = O.OPS[name]
            res.execs += 1
            b = gbh.call(lambda: op.fn(GroupBy(karr), O.Ctx(V=V, M=None, n=n)))
            if b.raised:
                continue
            for label, mk in variants[:2]:
                res.execs += 1
                o = gbh.call(lambda: op.fn(GroupBy(mk()), O.Ctx(V=V, M=None, n=n)))
                tag = f"{name} [keys={label} start={start} step={step}]"
                if o.raised:
                    res.fail("total", f"{tag}: raised {o.raised} (NumPy keys work)")
                    continue
                if op.kind == "reduce":
                    bad = gbh.same_mapping(o, b, ordered=True)
                else:
                    co, cb = next(iter(o.values.values())), next(iter(b.values.values()))
                    bad = None if len(co) == len(cb) and all(gbh.veq(x, y) for x, y in zip(co, cb)) \
                        else f"{co} vs {cb}"
                if bad:
                    res.fail("values", f"{tag}: {bad} (vs NumPy keys)")
        seams.reset()
        return res


def subspaces(tier, seed):
    q = tier == "quick"
    S = ContainerSpace
    sp = []
    h = 3 if q else 4
    sp.append(S(f"f8-n1to{h}", 2 if q else 3, 1, h, seed=seed))
    sp.append(S("f8-joint-n1to3", 2, 1, 3, joint=True, key_conts=(), val_conts=(), seed=seed))
    hv = 2 if q else 3
    for vd in ("f4", "i8big", "i4", "i2", "i1", "u1", "u8", "b", "M8[ns]", "M8[us]", "M8[s]", "m8[ns]",
               "m8[us]"):
        sp.append(S(f"{vd}-values-n1to{hv}", 2, 1, hv, vdtype=vd, key_conts=("polars",), seed=seed))
    for vd in ("M8[ns]", "M8[us]"):
        sp.append(S(f"{vd}-tz-values-n1to{hv}", 2, 1, hv, vdtype=vd, tz="US/Eastern",
                    key_conts=(), val_conts=("pd_series", "pd_arrow", "polars", "pa_array"), seed=seed))
    for kk in ("int", "str_obj", "dt_ns"):
        sp.append(S(f"{kk}-keys-n1to{hv}", 2, 1, hv, keykind=kk, val_conts=(), seed=seed))
    # Arrow integers with Arrow nulls (nullable ints exist only in Arrow-backed containers)
    for at in ("int64", "int32", "uint8"):
        sp.append(S(f"arrow-nullable-{at}-values-n1to3", 2, 1, 3, key_conts=(),
                    val_conts=("pa_array", "pa_chunked", "pd_arrow", "polars"), arrow_int=at, seed=seed))
    sp.append(RangeKeySpace(f"range-index-keys-n1to{4 if q else 6}", 1, 4 if q else 6, seed=seed))
    # several value columns of different dtypes at once, every key representation
    for cs in FrameSpace.COLSETS:
        if q and cs in ("f8+i4", "b+i2"):
            continue
        hi = 3 if (q or cs not in ("i8+f8", "f8+i4")) else 4
        sp.append(FrameSpace(f"frames-{cs}-n1to{hi}", 2, 1, hi, cs, seed=seed))
    return sp
