"""C04 - block-wise reduction equals single-pass reduction (kernel contract).

Exhaustive enumeration on groupby_lib.groupby.numba.group_* : code sequences over {null,0,1,2} x
null pattern of the values x every split (n_threads 1..4, every chunked value list) x every mask
kind x kernel x dtype class, against the per-group reference definition.
"""
from __future__ import annotations

import numpy as np

from .. import concrete as C
from .. import refmodel as R
from .. import sched
from .. import words as W
from ..engine import Result, Subspace
from .. import env

PROPERTY_ID = "C04"
TECHNIQUE = ("bounded exhaustive enumeration (small-scope model checking) of the real numba "
             "kernels against a pure-Python reference model; controlled executor (FIFO/LIFO)"
             '; task-footprint recorder on the per-block tasks')
RULE = ("case = one word over (code in {null,0,1,2}) x (value null / distinct non-null) [x mask "
        "bit] for one dtype class; every case runs all kernels x all splits (n_threads 1..4, every "
        "composition into 2..4 chunked value blocks) x the mask kind of the sub-space; non-trivial "
        "= at least 2 rows and (>=2 groups present or a null code/value or a rejected row)")
ASSUMPTIONS = [
    'slice masks (plain and stepped) also on chunked value lists of every composition',
    'footprint sub-spaces (write-write conflicts between the per-block task bodies) for boolean / no / positional masks and every split',
    "values outside the position table (signed powers of two) are not explored",
    "n <= 5 rows (quick) / 6 rows (thorough); G <= 3 groups; <= 4 blocks",
    "thread pool replaced by the controlled executor (completion order FIFO and LIFO); real "
    "OS-thread interleavings inside numba kernels are not modelled",
    "NUMBA_BOUNDSCHECK=1 (out-of-bounds accesses raise instead of reading garbage)",
]

KERNELS = ("size", "count", "sum", "sum_squares", "mean", "min", "max", "first", "last")
TEMPORAL_KERNELS = ("size", "count", "min", "max", "first", "last")
G = 3


def _kernels_for(dtype):
    return TEMPORAL_KERNELS if np.dtype(C._np_name(dtype)).kind in "mM" else KERNELS


def _expected_dtype(kernel, in_dt):
    in_dt = np.dtype(in_dt)
    if kernel in ("min", "max", "first", "last"):
        return in_dt
    if kernel in ("size", "count"):
        return np.dtype("int64")
    if kernel == "sum":
        if in_dt.kind in "ib":
            return np.dtype("int64")
        if in_dt.kind == "u":
            return np.dtype("uint64")
        return in_dt
    return None  # mean / sum_squares: some float


class KernelSpace(Subspace):
    """words x (mask kind specific enumeration), all kernels and splits inside one case"""

    shard = 200

    def __init__(self, name, alphabet, lo, hi, dtype="f8", mask_kind="none", nullcode=-1,
                 extra_groups=0, lifo=False, splits="all", seed=0, kernels=None, steps=(None,),
                 real_pool=False, footprint=False):
        self.name = name
        self.footprint = footprint
        self.ws = W.WordSpace(alphabet, lo, hi)
        self.dtype = dtype
        self.mask_kind = mask_kind
        self.nullcode = nullcode
        self.extra_groups = extra_groups
        self.lifo = lifo
        self.splits = splits
        self.seed = seed
        self.kernels = kernels
        self.steps = steps
        self.real_pool = real_pool
        self.warm_key = f"{dtype}-{mask_kind in ('none',)}"

    def size(self):
        return len(self.ws)

    def case(self, i):
        return dict(w=[list(s) for s in self.ws.at(i)], dtype=self.dtype, mask_kind=self.mask_kind,
                    nullcode=self.nullcode, extra_groups=self.extra_groups, lifo=self.lifo,
                    splits=self.splits, seed=self.seed, kernels=self.kernels,
                    steps=list(self.steps), real_pool=self.real_pool,
                    footprint=self.footprint)

    # -------------------------------------------------------------------------------------
    def run(self, case):
        import pyarrow as pa
        import groupby_lib.groupby.numba as nbm

        res = Result()
        w = case["w"]
        n = len(w)
        dtype = case["dtype"]
        seed = case.get("seed", 0)
        ks = [s[0] for s in w]
        xs = [s[1] for s in w]
        ms = [s[2] for s in w] if w and len(w[0]) > 2 else None
        nullcode = case["nullcode"]
        codes = np.array([nullcode if k < 0 else k for k in ks], dtype=np.int64)
        vals, py = C.make_values(xs, dtype, seed)
        ngroups = G + case["extra_groups"]
        in_dt = vals.dtype
        present = {k for k in ks if k >= 0}
        res.nontrivial = n >= 2 and (
            len(present) >= 2 or any(k < 0 for k in ks) or any(x == 0 for x in xs)
            or (ms is not None and any(m == 0 for m in ms)))

        # mask alternatives for this case
        mk = case["mask_kind"]
        if mk == "none":
            masks = [(None, None)]
        elif mk == "bool":
            masks = [(np.array(ms, dtype=bool), list(ms))]
        elif mk == "allbool":
            masks = [(np.array(m, dtype=bool), list(m)) for m in W.bool_masks(n)]
        elif mk == "slice":
            masks = [(slice(*s), ("slice",) + tuple(s)) for s in W.all_slices(n, tuple(case.get("steps") or (None,)))]
        elif mk == "pos":
            pl = list(W.position_lists(n, 3))
            if n:
                pl += [(-1,), (0, -1), (-1, 0), (-n,)]
            masks = [(np.array(p, dtype=np.int64), ("pos", list(p))) for p in pl]
        else:
            raise ValueError(mk)

        # splits
        splits = [("T", t) for t in (1, 2, 3, 4)]
        chunkable = in_dt.kind in "fiu" or (in_dt.kind in "mM" and all(xs))
        if case["splits"] == "all" and chunkable and n >= 2:
            splits += [("chunks", c) for c in W.compositions(n, 4, 2)]
        if case["splits"] == "T12":
            splits = [("T", 1), ("T", 2)]

        seams = env.seams()
        # free-running pass: the library's own ThreadPoolExecutor (real OS threads, any completion order)
        seams.set(executor=None if case.get("real_pool") else sched.NAMESPACE)
        policies = (0, -1) if case["lifo"] else (0,)
        fpr = bool(case.get("footprint")) and not case.get("real_pool")
        sched.FOOTPRINT.reset(fpr)
        kernels = _kernels_for(dtype)
        if case.get("kernels"):
            kernels = [k for k in kernels if k in case["kernels"]]
        for mask, mref in masks:
            exp_cache = {}
            for kernel in kernels:
                func = getattr(nbm, "group_" + kernel)
                if kernel not in exp_cache:
                    exp_cache[kernel] = R.group_reduce(kernel, ks, py, ngroups, mref)
                exp = exp_cache[kernel]
                for skind, sarg in splits:
                    if skind == "chunks" and isinstance(mask, np.ndarray) and mask.dtype.kind == "i":
                        pass  # positional masks + chunked values: library un-chunks; still legal
                    # (a slice mask on chunked values cuts the chunked array as a whole, like array indexing)
                    for pol in policies:
                        if pol == -1 and not (skind == "chunks" or sarg > 1):
                            continue
                        sched.set_schedule(sched.Schedule([], default=pol))
                        if skind == "T":
                            v, T = vals, sarg
                        else:
                            cuts = np.cumsum(sarg)[:-1]
                            v, T = pa.chunked_array([pa.array(p) for p in np.split(vals, cuts)]), 1
                        res.execs += 1
                        try:
                            if kernel == "size":
                                if skind == "chunks":
                                    res.execs -= 1
                                    continue
                                out = func(codes, ngroups, mask, T)
                            else:
                                out = func(codes, v, ngroups, mask, T)
                        except Exception as e:  # noqa
                            res.fail("total", f"group_{kernel} {skind}={sarg} mask={_m(mref)} "
                                              f"raised {type(e).__name__}: {str(e)[:120]}")
                            continue
                        try:
                            obs = C.norm_array(out)
                        except Exception as e:  # noqa
                            res.fail("values", f"group_{kernel} {skind}={sarg} mask={_m(mref)} "
                                               f"returned un-normalisable {type(out).__name__}: {e}")
                            continue
                        odt = np.asarray(out).dtype
                        bad = None
                        if len(obs) != ngroups:
                            bad = f"length {len(obs)} != ngroups {ngroups}"
                        else:
                            for g in range(ngroups):
                                if not C.same(exp[g], obs[g], odt):
                                    bad = f"group {g}: expected {exp[g]} got {obs[g]}"
                                    break
                        if bad:
                            res.fail("values", f"group_{kernel} {skind}={sarg} mask={_m(mref)} "
                                               f"sched={'LIFO' if pol else 'FIFO'}: {bad}")
                        edt = _expected_dtype(kernel, in_dt)
                        if edt is not None and odt != edt:
                            res.fail("dtype", f"group_{kernel} {skind}={sarg}: result dtype {odt}, "
                                              f"expected {edt} for input {in_dt}")
        sched.set_schedule(sched.Schedule())
        if fpr:
            # the per-block task bodies must not write memory that another block's task can see
            for msg in sorted(set(sched.FOOTPRINT.conflicts))[:3]:
                res.fail("independence", msg)
            res.extra = {"footprint_task_bodies_checked": sched.FOOTPRINT.tasks_checked}
            sched.FOOTPRINT.reset(False)
        return res


def _m(mref):
    if mref is None:
        return "none"
    if isinstance(mref, tuple):
        return f"{mref[0]}{list(mref[1:]) if mref[0]=='slice' else mref[1]}"
    return "bool" + "".join(map(str, mref))


def subspaces(tier, seed):
    q = tier == "quick"
    AF, AF2 = W.AF(G), W.AF(2)
    AFM = [(k, x, m) for (k, x) in AF for m in (0, 1)]
    KN = [(k, 1) for k in W.K(G)]  # non-nullable value dtypes
    KNM = [(k, 1, m) for k in W.K(G) for m in (0, 1)]
    SEL = ("size", "count", "sum", "min", "first", "last")
    sp = []
    K_ = KernelSpace
    L = 4 if q else 5
    sp.append(K_(f"nomask-f8-n0to{L}", AF, 0, L, "f8", "none", seed=seed))
    if not q:
        # length 6 (the property's bound) with two groups: 6-symbol alphabet, 46 656 words
        sp.append(K_("nomask-f8-G2-n6", AF2, 6, 6, "f8", "none", seed=seed))
    sp.append(K_(f"nomask-f8-lifo-n0to{3 if q else 4}", AF, 0, 3 if q else 4, "f8", "none",
                 lifo=True, seed=seed))
    sp.append(K_(f"boolmask-f8-full-n1to{2 if q else 3}", AFM, 1, 2 if q else 3, "f8", "bool",
                 seed=seed))
    sp.append(K_("boolmask-f8-A3-n3", W.A(G), 3, 3, "f8", "bool", seed=seed))
    # task footprints (write-write conflicts between the per-block task bodies), every split and mask kind
    sp.append(K_(f"footprint-boolmask-f8-A2-n{3 if q else 4}", W.A(2), 3 if q else 4, 3 if q else 4, "f8",
                 "bool", lifo=True, seed=seed, footprint=True))
    sp.append(K_("footprint-nomask-f8-n3", AF, 3, 3, "f8", "none", seed=seed, footprint=True))
    if not q:
        sp.append(K_("footprint-positions-f8-n3", AF2, 3, 3, "f8", "pos", splits="T12", seed=seed,
                     footprint=True))
        sp.append(K_("footprint-u1-n4", KN, 4, 4, "u1", "none", seed=seed, footprint=True))
    if q:
        sp.append(K_("boolmask-f8-A2-n4", W.A(2), 4, 4, "f8", "bool", seed=seed))
    else:
        sp.append(K_("boolmask-f8-A3-n4", W.A(G), 4, 4, "f8", "bool", seed=seed))
        sp.append(K_("boolmask-f8-A2-n5", W.A(2), 5, 5, "f8", "bool", seed=seed))
        sp.append(K_("boolmask-f8-A1-n6", W.A(1), 6, 6, "f8", "bool", seed=seed))
    sp.append(K_(f"allboolmasks-f8-n1to{3 if q else 4}", AF, 1, 3 if q else 4, "f8", "allbool",
                 splits="T12" if q else "all", seed=seed))
    sp.append(K_("slices-f8-n0to3", AF2 if q else AF, 0, 3, "f8", "slice", splits="T12",
                 kernels=SEL if q else None, seed=seed))
    # slice masks on chunked value lists (every composition): the slice cuts the chunked array as a whole
    sp.append(K_("slices-chunked-values-f8-n3", AF2, 3, 3, "f8", "slice",
                 splits="all", kernels=("sum", "first") if q else SEL, steps=(None, -1) if q else (None, -1, 2),
                 seed=seed))
    sp.append(K_("stepped-slices-f8-n1to2", AF2, 1, 2 if q else 3, "f8", "slice", splits="T12",
                 kernels=SEL, steps=(2, -1, -2), seed=seed))
    sp.append(K_("positions-f8-n1to3", AF2 if q else AF, 1, 3, "f8", "pos", splits="T12",
                 kernels=SEL if q else None, seed=seed))
    for nc, nm in ((-2, "m2"), (int(np.iinfo(np.int64).min), "i64min")):
        sp.append(K_(f"nullcode-{nm}-f8-n1to{3 if q else 4}", AF, 1, 3 if q else 4, "f8", "none",
                     nullcode=nc, extra_groups=2, seed=seed))
    Ld = 3 if q else 5
    for dt in ("f4", "M8[ns]", "m8[ns]"):
        sp.append(K_(f"dtype-{dt}-n1to{Ld}", AF, 1, Ld, dt, "none", seed=seed))
        sp.append(K_(f"dtype-{dt}-boolmask-n1to{min(Ld-1, 3)}", AFM, 1, min(Ld - 1, 3), dt, "bool", seed=seed))
    for dt in ("i8", "i4", "u1", "b"):
        sp.append(K_(f"dtype-{dt}-n1to{Ld+1}", KN, 1, Ld + 1, dt, "none", seed=seed))
        sp.append(K_(f"dtype-{dt}-boolmask-n1to{min(Ld, 4)}", KNM, 1, min(Ld, 4), dt, "bool", seed=seed))
    if not q:
        sp.append(K_("nomask-f8-realpool-n1to4", AF, 1, 4, "f8", "none", real_pool=True, seed=seed))
        sp.append(K_("boolmask-f8-realpool-A2-n3to4", W.A(2), 3, 4, "f8", "bool", real_pool=True, seed=seed))
        sp.append(K_("dtype-i4-realpool-n1to5", KN, 1, 5, "i4", "none", real_pool=True, seed=seed))
        for dt in ("i8big", "i2", "i1", "u8", "M8[us]", "M8[s]", "m8[us]"):
            alpha = AF if C.can_null(dt) else KN
            sp.append(K_(f"dtype-{dt}-n1to4", alpha, 1, 4, dt, "none", seed=seed))
    return sp
