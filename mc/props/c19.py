"""C19 - operations never modify their inputs and results do not alias them."""
from __future__ import annotations

import io
import contextlib
import warnings

import numpy as np
import pandas as pd

from .. import concrete as C
from .. import gbh
from .. import ops as O
from .. import sched
from ..engine import Result, Subspace
from .. import env

PROPERTY_ID = "C19"
TECHNIQUE = ("exhaustive enumeration of (operation x key container x value container x value dtype "
             "x key representation) cells, each explored as a depth-3 history on the real "
             "implementation: call, mutate the returned result in place through every writable "
             "handle, call again; byte-level snapshots of every input buffer around every step")
RULE = ("case = one cell (operation, key container, value container, dtype class, representation) "
        "on two fixed datasets (null key, null value, rejected row); history: snapshot inputs -> r1 = "
        "op(x) -> snapshot -> mutate r1 through every handle that is writable as returned (ndarray "
        "views, .values/.to_numpy(copy=False), public setters, dict entries) -> snapshot -> r2 = "
        "op(x) on a fresh grouping and on the same grouping; facets: input-modified, "
        "write-through-to-input, later-call-changed, accessor-alias, grouping-changed; non-trivial = "
        "every cell")
ASSUMPTIONS = [
    'the positional-mask role holds repeated and negative positions',
    "sub-space 'extra-operations': composite helpers (subset_ratio, ratio, density, agg of two inputs, margins, crosstab), class-level / copy-constructed calls, positional masks, emas entry points, numba kernels with one and two blocks, nanops 1-D / 2-D, nb_dot, bools_to_categorical, pretty_cut, facade incl. iteration x every container of every argument role",
    "results are mutated only through handles that are writable as returned and through public "
    "setters, never by flipping flags.writeable (that is the caller defeating the protection)",
    "container kinds: ndarray (C-contiguous, strided view, read-only), pandas Series (NumPy- and "
    "Arrow-backed), Categorical, polars Series, pyarrow Array / ChunkedArray built as zero-copy "
    "views of NumPy buffers",
    "content of the datasets is fixed (aliasing is a property of the code path, not of the data)",
]

KEYS = [3.0, 1.0, float("nan"), 2.0, 1.0, 3.0]
KEYS_SORTED_APPEARANCE = [1.0, 1.0, float("nan"), 2.0, 3.0, 2.0]
# no null key, two rows per group: head(2)/tail(2) select every row ("nothing to gather" shortcuts)
KEYS_FULL = [3.0, 1.0, 2.0, 2.0, 1.0, 3.0]
KEYS_FULL_SORTED = [1.0, 1.0, 2.0, 2.0, 3.0, 3.0]
KEYSETS = {"": KEYS, "inc": KEYS_SORTED_APPEARANCE, "full": KEYS_FULL, "incfull": KEYS_FULL_SORTED}
XS = [1, 0, 1, 1, 1, 1]
MASK = [1, 1, 1, 0, 1, 1]
N = 6

KEY_CONTS = ("ndarray", "strided", "readonly", "pd_series", "pd_arrow", "categorical", "polars",
             "pa_array", "pa_chunked", "pd_index_named", "range_index_dict", "series_dict")
VAL_CONTS = ("ndarray", "strided", "readonly", "pd_series", "pd_arrow", "polars", "pa_array",
             "pa_chunked", "frame")


class Holder:
    """an input in some container plus the NumPy buffers it may share memory with"""

    def __init__(self, obj, bases):
        self.obj, self.bases = obj, bases

    def snapshot(self):
        return tuple(snap(b) for b in self.bases) + (snap(self.obj),)


def snap(x):
    import pyarrow as pa
    import polars as pl

    if isinstance(x, np.ndarray):
        if x.dtype.kind == "O":
            return ("ndo", tuple(map(repr, x.tolist())))
        return ("nd", str(x.dtype), x.shape, x.tobytes())
    if isinstance(x, pd.DataFrame):
        return ("df", tuple(snap(x[c]) for c in x.columns), snap(x.index))
    if isinstance(x, pd.Series):
        return ("ser", snap(x.array), snap(x.index), repr(x.name))
    if isinstance(x, pd.Index):
        return ("idx", tuple(map(repr, x.tolist())), repr(x.names))
    if isinstance(x, pd.Categorical):
        return ("cat", snap(np.asarray(x.codes)), tuple(map(repr, x.categories.tolist())))
    if isinstance(x, pd.api.extensions.ExtensionArray):
        if hasattr(x, "_pa_array"):
            return snap(x._pa_array)
        return ("ea", tuple(map(repr, x.tolist())))
    if isinstance(x, pl.Series):
        return ("pl", snap(x.to_arrow()))
    if isinstance(x, pa.ChunkedArray):
        return ("pac", tuple(snap(c) for c in x.chunks))
    if isinstance(x, pa.Array):
        return ("pa", str(x.type), tuple(None if b is None else b.to_pybytes() for b in x.buffers()),
                x.offset, len(x))
    if isinstance(x, dict):
        return ("dict", tuple((repr(k), snap(v)) for k, v in x.items()))
    if isinstance(x, (list, tuple)):
        return ("list", tuple(snap(v) for v in x))
    if isinstance(x, slice):
        return ("slice", x.start, x.stop, x.step)
    if x is None:
        return None
    return ("py", repr(x))


def make_input(arr, cont):
    """arr: fresh NumPy array (owned by the caller).  Returns Holder."""
    import pyarrow as pa
    import polars as pl

    if cont == "ndarray":
        return Holder(arr, [])
    if cont == "strided":
        base = np.repeat(arr, 2)
        return Holder(base[::2], [base])
    if cont == "readonly":
        a = arr.copy()
        a.flags.writeable = False
        return Holder(a, [])
    if cont == "pd_series":
        return Holder(pd.Series(arr, copy=False), [arr])
    if cont == "categorical":
        return Holder(pd.Categorical(arr), [])
    if cont == "pd_index_named":
        return Holder(pd.Index(arr, name="orig"), [])
    if cont == "range_index_dict":
        ri = pd.RangeIndex(len(arr), name="orig")
        return Holder({"k": ri}, [ri])
    if cont == "series_dict":
        ser = pd.Series(arr, name="orig")
        return Holder({"k": ser}, [ser])
    if cont == "frame":
        return Holder(pd.DataFrame({"a": arr, "b": arr * 2 if arr.dtype.kind in "fiu" else arr}), [])
    if cont in ("array2d", "list_np", "dict_np"):
        # several raw NumPy columns: nothing (no copy-on-write) stands between a result and them
        second = arr * 2 if arr.dtype.kind in "fiu" else arr.copy()
        if cont == "array2d":
            a2 = np.column_stack([arr, second])
            return Holder(a2, [])
        if cont == "list_np":
            return Holder([arr, second], [arr, second])
        return Holder({"a": arr, "b": second}, [arr, second])
    # Arrow-backed: zero-copy views of the NumPy buffer where Arrow allows it
    nullable = arr.dtype.kind in "fmM"
    if arr.dtype.kind == "f":
        a = pa.array(arr, from_pandas=True)  # NaN -> null (copies the validity bitmap only)
    elif arr.dtype.kind in "mM":
        a = pa.array(arr)  # NaT -> null
    elif arr.dtype.kind == "b":
        a = pa.array(arr)
    else:
        a = pa.array(arr)
    if cont == "pa_array":
        return Holder(a, [arr])
    if cont == "pa_chunked":
        return Holder(pa.chunked_array([a[:2], a[2:]]), [arr])
    if cont == "pd_arrow":
        return Holder(pd.Series(a, dtype=pd.ArrowDtype(a.type)), [arr])
    if cont == "polars":
        return Holder(pl.Series("v", a), [arr])
    raise ValueError(cont)


def values_array(dtype):
    if dtype == "tz":
        arr, _ = C.make_values(XS, "M8[ns]", 0)
        return arr
    if C.can_null(dtype):
        arr, _ = C.make_values(XS, dtype, 0)
    else:
        arr, _ = C.make_values([1] * N, dtype, 0)
    return arr


def writable_handles(r):
    """[(description, ndarray)] handles into a result through which a caller could write"""
    import polars as pl

    out = []
    if isinstance(r, np.ndarray):
        if r.flags.writeable:
            out.append(("ndarray", r))
    elif isinstance(r, pd.Series):
        for nm, f in (("values", lambda: r.values), ("to_numpy(copy=False)", lambda: r.to_numpy(copy=False)),
                      ("np.asarray", lambda: np.asarray(r)), ("index.values", lambda: r.index.values)):
            try:
                a = f()
            except Exception:  # noqa
                continue
            if isinstance(a, np.ndarray) and a.flags.writeable and a.dtype.kind != "O":
                out.append((nm, a))
    elif isinstance(r, pd.DataFrame):
        for c in r.columns:
            out += [(f"[{c}].{nm}", a) for nm, a in writable_handles(r[c])]
    elif isinstance(r, dict):
        for k, v in r.items():
            if isinstance(v, np.ndarray) and v.flags.writeable:
                out.append((f"dict[{k!r}]", v))
    elif isinstance(r, (pl.Series, pl.DataFrame)):
        pass  # immutable buffers
    return out


def scribble(a):
    if a.size == 0:
        return
    if a.dtype.kind == "b":
        a[...] = ~a
    elif a.dtype.kind in "mM":
        a.view("i8")[...] = 12345
    else:
        a[...] = 77


OPNAMES = ["size", "size_obsF", "count", "sum", "mean", "min", "max", "first", "last", "var", "median", "quantile",
           "apply_sum", "agg_list", "sum_t", "min_t", "last_t", "count_t", "size_t", "cumsum", "cummin",
           "cummax", "cumcount", "rolling_sum", "rolling_min", "rolling_max", "shift", "diff",
           "rolling_sum_g", "ema_alpha", "ema_timed", "head2", "tail1", "nth0", "groups", "key_count"]
ACCESSORS = ["groups", "key_count", "ikey_count", "group_ikey", "result_index"]


class AliasSpace(Subspace):
    shard = 20

    def __init__(self, tier, seed=0):
        self.name = "cells"
        q = tier == "quick"
        cells = []
        dts = ("f8", "i8", "b", "M8[ns]", "tz")
        for rep in ("contig", "chunkwise"):
            for op in OPNAMES:
                for kc in KEY_CONTS:
                    cells.append((op, kc, "ndarray", "f8", rep))
                    if kc in ("ndarray", "pd_series", "pa_chunked"):
                        cells.append((op, kc + "+inc", "ndarray", "f8", rep))
                    if kc in ("ndarray", "pd_series"):
                        for ks_ in ("full", "incfull"):
                            cells.append((op, f"{kc}+{ks_}", "ndarray", "f8", rep))
                            if op in ("head2", "tail1", "nth0", "shift", "cumsum", "sum_t", "rolling_sum"):
                                for vc in ("array2d", "list_np", "dict_np"):
                                    cells.append((op, f"{kc}+{ks_}", vc, "f8", rep))
                for vc in VAL_CONTS:
                    for dt in dts:
                        if q and rep == "chunkwise" and dt not in ("f8", "M8[ns]"):
                            continue
                        cells.append((op, "ndarray", vc, dt, rep))
        # the same operations with a boolean mask (mask buffer must stay intact as well)
        for rep in ("contig", "chunkwise"):
            for op in OPNAMES:
                for kc, vc in (("ndarray", "ndarray"), ("pd_series", "pd_series"), ("ndarray", "pa_chunked")):
                    cells.append((op, kc, vc, "f8", rep, "masked"))
        for rep in ("contig", "chunkwise"):
            for acc in ACCESSORS:
                for kc in ("ndarray", "pd_series", "categorical", "pa_chunked"):
                    cells.append(("accessor:" + acc, kc, "ndarray", "f8", rep))
        self.cells = cells

    def size(self):
        return len(self.cells)

    def warm_indices(self, n):
        return range(0, n, max(1, n // 40))

    def case(self, i):
        op, kc, vc, dt, rep = self.cells[i][:5]
        return dict(op=op, key_cont=kc, val_cont=vc, dtype=dt, rep=rep,
                    masked=len(self.cells[i]) > 5)

    def run(self, case):
        from groupby_lib import GroupBy

        res = Result()
        res.nontrivial = True
        opn, kc, vc, dt, rep = case["op"], case["key_cont"], case["val_cont"], case["dtype"], case["rep"]
        seams = env.seams()
        seams.set(executor=sched.NAMESPACE, threshold=1 if rep == "chunkwise" else None)
        sched.set_schedule(sched.Schedule())
        warnings.simplefilter("ignore")

        kc, _, keyset = kc.partition("+")

        def build():
            karr = np.array(KEYSETS[keyset], dtype="f8")
            if kc in ("categorical",):
                karr = np.array(["c", "a", None, "b", "a", "c"], dtype=object)
            K = make_input(karr, kc)
            varr = values_array(dt)
            V = make_input(varr, vc)
            if dt == "tz":
                if vc in ("pd_series",):
                    V = Holder(pd.Series(varr).dt.tz_localize("UTC").dt.tz_convert("US/Eastern"), [varr])
                elif vc != "ndarray":
                    V = None
            M = make_input(np.array(MASK, dtype=bool), "ndarray")
            T = make_input(O.times_for(N)[0], "ndarray")
            return K, V, M, T

        K, V, M, T = build()
        if V is None:
            return res
        tag = f"{opn} keys={kc}{'+' + keyset if keyset else ''} values={vc}/{dt} {rep}"
        accessor = opn.startswith("accessor:")
        if accessor:
            fn = lambda g, ctx: getattr(g, opn.split(":")[1])  # noqa
            kind, masks = "misc", ("none",)
            vk_ok = True
        else:
            op = O.OPS[opn]
            fn, kind, masks = op.fn, op.kind, op.masks
            vkind = "M" if dt == "tz" else np.dtype(C._np_name(dt)).kind
            vk_ok = vkind in op.vkinds
        if not vk_ok:
            return res
        use_mask = "bool" in masks and case.get("masked", False)
        Vobj = V.obj
        VS = Vobj
        if not accessor and kind == "select" or opn in ("rolling_sum_g",):
            if isinstance(Vobj, np.ndarray):
                VS = Vobj
        ctx = O.Ctx(V=Vobj, M=M.obj if use_mask else None, V2=None, T=T.obj, VS=VS, n=N)
        holders = [("keys", K), ("values", V), ("mask", M), ("times", T)]
        before = {nm: h.snapshot() for nm, h in holders}

        def run_on(g):
            with contextlib.redirect_stdout(io.StringIO()):
                return fn(g, ctx)

        def check_inputs(stage):
            for nm, h in holders:
                if h.snapshot() != before[nm]:
                    res.fail("input-modified" if stage == "call" else "write-through-to-input",
                             f"{tag}: {nm} changed after {stage}")
                    return False
            return True

        res.execs += 1
        try:
            g = GroupBy(K.obj)
            codes_before = None
            r1 = run_on(g)
        except Exception as e:  # noqa
            # rejected input combination (not this property's business) - but inputs must be intact
            check_inputs("call")
            seams.reset()
            return res
        if not check_inputs("call"):
            seams.reset()
            return res
        def nf(r):
            try:
                return gbh.normalise(r).key()
            except Exception:  # noqa
                return ("snap", snap(r) if not isinstance(r, (pd.Index,)) else snap(pd.Index(r)))

        n1 = nf(r1)
        # a second grouping built now (before mutation) for the logical-grouping facet
        handles = writable_handles(r1)
        for nm, a in handles:
            scribble(a)
        # public setters.  No other pandas object may reference the result's blocks while it is
        # written (copy-on-write would then copy first and hide a shared buffer), so the new values
        # are computed from copies and nothing derived from r1 is kept alive.
        def new_values(col):
            a = col.to_numpy(copy=True)
            if a.dtype.kind in "iuf":
                return a + 7
            if a.dtype.kind == "b":
                return ~a
            return a[::-1].copy()

        import gc
        if isinstance(r1, pd.Series) and len(r1):
            try:
                nv = new_values(r1)
                gc.collect()
                r1.iloc[0] = nv[0]
                r1.iloc[:] = nv
            except Exception:  # noqa
                pass
        elif isinstance(r1, pd.DataFrame) and len(r1):
            for j in range(r1.shape[1]):
                try:
                    nv = new_values(r1.iloc[:, j])
                    gc.collect()
                    r1.iloc[:, j] = nv
                except Exception:  # noqa
                    pass
        if not check_inputs(f"mutating the result ({', '.join(h for h, _ in handles) or 'setter'})"):
            seams.reset()
            return res
        # later identical call: fresh grouping over the same (caller-owned) inputs
        res.execs += 1
        try:
            r2 = run_on(GroupBy(K.obj))
            n2 = nf(r2)
        except Exception as e:  # noqa
            n2 = f"raised {type(e).__name__}"
        if n2 != n1:
            res.fail("later-call-changed", f"{tag}: a later identical call on a fresh grouping differs "
                                           f"after the first result was mutated")
        # same grouping object: the cached accessors return internal state by reference
        res.execs += 1
        try:
            r3 = run_on(g)
            n3 = nf(r3)
        except Exception as e:  # noqa
            n3 = f"raised {type(e).__name__}"
        if n3 != n1:
            facet = "accessor-alias" if (accessor or opn in ("groups", "key_count")) else "later-call-changed"
            res.fail(facet, f"{tag}: the same call on the same grouping differs after the first "
                            f"result was mutated through {[h for h, _ in handles]}")
        elif accessor or opn in ("groups", "key_count"):
            # the grouping itself must still be the same logical grouping
            res.execs += 1
            try:
                with contextlib.redirect_stdout(io.StringIO()):
                    s_after = gbh.normalise(g.size()).key()
                    s_fresh = gbh.normalise(GroupBy(K.obj).size()).key()
                if s_after != s_fresh:
                    res.fail("grouping-changed", f"{tag}: size() of the grouping changed after mutating "
                                                 f"the accessor result")
            except Exception as e:  # noqa
                res.fail("grouping-changed", f"{tag}: size() raised {type(e).__name__} after mutating "
                                             f"the accessor result")
        seams.reset()
        return res


# ---------------------------------------------------------------------------------------------
# the remaining public operations (composite helpers, several masks, kernels, EMAs, nanops, array
# helpers, facade): every array argument in every container of its role, same depth-3 history
# ---------------------------------------------------------------------------------------------
MASK2 = [1, 0, 1, 1, 0, 1]          # global selection; MASK has rows outside it (rows 1 and 4)
CODES = [2, 0, -1, 1, 0, 2]


def _extra_ops():
    from groupby_lib import GroupBy, emas, nanops
    from groupby_lib import util as U
    from groupby_lib.groupby import numba as nbm
    from groupby_lib.groupby.core import crosstab

    G = lambda a: GroupBy(a["keys"])  # noqa
    t = {}
    t["subset_ratio"] = (("keys", "values", "mask", "mask2"),
                         lambda a: G(a).subset_ratio(a["values"], a["mask"], a["mask2"]))
    t["subset_ratio_count"] = (("keys", "values", "mask", "mask2"),
                               lambda a: G(a).subset_ratio(a["values"], a["mask"], a["mask2"], agg_func="count"))
    t["ratio"] = (("keys", "values", "values2", "mask"),
                  lambda a: G(a).ratio(a["values"], a["values2"], mask=a["mask"]))
    t["density"] = (("keys", "values", "mask"), lambda a: G(a).density(a["values"], mask=a["mask"]))
    t["density_sizes"] = (("keys", "mask"), lambda a: G(a).density(mask=a["mask"]))
    t["agg_two"] = (("keys", "values", "values2", "mask"),
                    lambda a: G(a).agg([a["values"], a["values2"]], ["sum", "max"], mask=a["mask"]))
    t["sum_margins"] = (("keys", "values", "mask"), lambda a: G(a).sum(a["values"], mask=a["mask"], margins=True))
    t["two_keys_sum"] = (("keys", "keys2", "values", "mask"),
                         lambda a: GroupBy([a["keys"], a["keys2"]]).sum(a["values"], mask=a["mask"]))
    t["two_keys_margins"] = (("keys", "keys2", "values"),
                             lambda a: GroupBy([a["keys"], a["keys2"]]).sum(a["values"], margins=True))
    t["crosstab"] = (("keys", "keys2", "values", "mask"),
                     lambda a: crosstab(a["keys"], a["keys2"], a["values"], mask=a["mask"]))
    t["crosstab_margins"] = (("keys", "keys2", "values"),
                             lambda a: crosstab(a["keys"], a["keys2"], a["values"], margins=True))
    t["class_sum"] = (("keys", "values", "mask"), lambda a: GroupBy.sum(a["keys"], a["values"], mask=a["mask"]))
    t["copy_sum"] = (("keys", "values"), lambda a: GroupBy(G(a)).sum(a["values"]))
    t["group_nearby_members"] = (("keys", "values"), lambda a: G(a).group_nearby_members(a["values"], 1.0))
    t["sum@pos"] = (("keys", "values", "pos"), lambda a: G(a).sum(a["values"], mask=a["pos"]))
    t["first@pos"] = (("keys", "values", "pos"), lambda a: G(a).first(a["values"], mask=a["pos"]))
    t["ema_timed_masked"] = (("keys", "values", "times", "mask"),
                             lambda a: G(a).ema(a["values"], halflife="2s", times=a["times"], mask=a["mask"]))
    t["emas.ema"] = (("values",), lambda a: emas.ema(a["values"], alpha=0.5))
    t["emas.ema_timed"] = (("values", "times"), lambda a: emas.ema(a["values"], halflife="2s", times=a["times"]))
    t["emas.ema_grouped"] = (("codes", "values", "mask"),
                             lambda a: emas.ema_grouped(a["codes"], 3, a["values"], alpha=0.5, mask=a["mask"]))
    t["emas.ema_grouped_timed"] = (("codes", "values", "times"),
                                   lambda a: emas.ema_grouped(a["codes"], 3, a["values"], halflife="2s",
                                                              times=a["times"]))
    for k in ("sum", "mean", "min", "first", "last", "count"):
        t["numba.group_" + k] = (("codes", "values", "mask"),
                                 lambda a, f=k: getattr(nbm, "group_" + f)(a["codes"], a["values"], 3, a["mask"]))
        t["numba.group_" + k + "_T2"] = (("codes", "values", "mask"),
                                         lambda a, f=k: getattr(nbm, "group_" + f)(a["codes"], a["values"], 3, a["mask"], 2))
    t["numba.group_sum@pos"] = (("codes", "values", "pos"),
                                lambda a: nbm.group_sum(a["codes"], a["values"], 3, a["pos"]))
    t["numba.group_size"] = (("codes", "mask"), lambda a: nbm.group_size(a["codes"], 3, a["mask"]))
    for k in ("cumsum", "cummin", "cummax"):
        t["numba." + k] = (("codes", "values", "mask"), lambda a, f=k: getattr(nbm, f)(a["codes"], a["values"], 3, a["mask"]))
    for k in ("rolling_sum", "rolling_min"):
        t["numba." + k] = (("codes", "values", "mask"),
                           lambda a, f=k: getattr(nbm, f)(a["codes"], a["values"], 3, 2, 1, a["mask"]))
    for k in ("rolling_shift", "rolling_diff"):
        t["numba." + k] = (("codes", "values", "mask"),
                           lambda a, f=k: getattr(nbm, f)(a["codes"], a["values"], 3, 1, a["mask"]))
    for k in ("nansum", "nanmean", "nanmin", "nanmax", "nanvar", "nanstd"):
        t["nanops." + k] = (("values",), lambda a, f=k: getattr(nanops, f)(a["values"]))
        t["nanops." + k + "_T2"] = (("values",), lambda a, f=k: getattr(nanops, f)(a["values"], n_threads=2))
    t["nanops.nansum_2d"] = (("matrix",), lambda a: nanops.nansum(a["matrix"], axis=0))
    t["nanops.nanmax_2d_T2"] = (("matrix",), lambda a: nanops.nanmax(a["matrix"], axis=1, n_threads=2))
    t["util.nb_dot"] = (("matrix", "vec"), lambda a: U.nb_dot(a["matrix"], a["vec"]))
    t["util.bools_to_categorical"] = (("boolframe",), lambda a: U.bools_to_categorical(a["boolframe"]))
    t["util.pretty_cut"] = (("values", "bins"), lambda a: U.pretty_cut(a["values"], a["bins"]))

    def facade(a, how, frame=True):
        from groupby_lib.groupby.monkey_patch import install_groupby_fast
        install_groupby_fast()
        v = a["values"]
        obj = pd.DataFrame({"x": v, "y": np.asarray(v) * 2}, copy=False) if frame else \
            (v if isinstance(v, pd.Series) else pd.Series(v, copy=False))
        return how(obj.groupby_fast(a["keys"]))
    for nm, how in (("sum", lambda g: g.sum()), ("cumsum", lambda g: g.cumsum()), ("size", lambda g: g.size()),
                    ("rolling_sum", lambda g: g.rolling(2, 1).sum()), ("first", lambda g: g.first()),
                    ("iter", lambda g: {k: v for k, v in g})):
        t["facade.frame." + nm] = (("keys", "values"), lambda a, h=how: facade(a, h, True))
        t["facade.series." + nm] = (("keys", "values"), lambda a, h=how: facade(a, h, False))
    return t


ROLE_CONTS = {
    "keys": ("ndarray", "pd_series", "categorical", "pa_chunked"),
    "keys2": ("ndarray", "pd_series"),
    "codes": ("ndarray", "strided", "readonly"),
    "values": ("ndarray", "strided", "readonly", "pd_series", "pa_chunked"),
    "values2": ("ndarray", "pd_series"),
    "mask": ("ndarray", "strided", "pd_series"),
    "mask2": ("ndarray", "pd_series"),
    "pos": ("ndarray",),
    "times": ("ndarray", "pd_series"),
    "matrix": ("ndarray", "fortran"),
    "vec": ("ndarray",),
    "boolframe": ("frame",),
    "bins": ("ndarray", "list"),
}


def _role_array(role):
    if role == "keys":
        return np.array(KEYS, dtype="f8")
    if role == "keys2":
        return np.array([1.0, 1.0, 2.0, float("nan"), 2.0, 1.0])
    if role == "codes":
        return np.array(CODES, dtype=np.int64)
    if role == "values":
        return values_array("f8")
    if role == "values2":
        return np.abs(values_array("f8")) + 1.0  # same nullity as `values` (ratio insists on it)
    if role == "mask":
        return np.array(MASK, dtype=bool)
    if role == "mask2":
        return np.array(MASK2, dtype=bool)
    if role == "pos":
        return np.array([5, 0, -3, 0, -1], dtype=np.int64)  # repeated and negative (from the end) positions
    if role == "times":
        return O.times_for(N)[0]
    if role == "matrix":
        return np.array([[1.0, np.nan, 4.0], [2.0, 8.0, np.nan], [16.0, 32.0, 64.0]])
    if role == "vec":
        return np.array([1.0, 2.0, 4.0])
    if role == "bins":
        return np.array([0.0, 2.0, 10.0, 100.0])
    raise ValueError(role)


def _role_holder(role, cont):
    arr = _role_array(role) if role != "boolframe" else None
    if role == "boolframe":
        df = pd.DataFrame({"a": [True, False, True], "b": [False, False, True]})
        return Holder(df, [])
    if cont == "fortran":
        a = np.asfortranarray(arr)
        return Holder(a, [])
    if cont == "list":
        lst = arr.tolist()
        return Holder(lst, [])
    if role == "keys" and cont == "categorical":
        return make_input(np.array(["c", "a", None, "b", "a", "c"], dtype=object), cont)
    return make_input(arr, cont)


class ExtraSpace(Subspace):
    shard = 10

    def __init__(self, tier, seed=0):
        self.name = "extra-operations"
        self._cells = None

    def _build(self):
        if self._cells is None:
            cells = []
            for rep in ("contig", "chunkwise"):
                for name, (roles, _) in _extra_ops().items():
                    if rep == "chunkwise" and "keys" not in roles:
                        continue
                    cells.append((name, None, None, rep))  # all default (first) containers
                    for r in roles:
                        for c in ROLE_CONTS[r][1:]:
                            cells.append((name, r, c, rep))
            self._cells = cells

    def size(self):
        self._build()
        return len(self._cells)

    def warm_indices(self, n):
        return range(0, n, max(1, n // 60))

    def case(self, i):
        self._build()
        name, role, cont, rep = self._cells[i]
        return dict(op=name, role=role, cont=cont, rep=rep)

    def run(self, case):
        res = Result()
        res.nontrivial = True
        roles, fn = _extra_ops()[case["op"]]
        seams = env.seams()
        seams.set(executor=sched.NAMESPACE, threshold=1 if case["rep"] == "chunkwise" else None)
        sched.set_schedule(sched.Schedule())
        warnings.simplefilter("ignore")
        holders = {}
        for r in roles:
            cont = case["cont"] if r == case["role"] else ROLE_CONTS[r][0]
            holders[r] = _role_holder(r, cont)
        args = {r: h.obj for r, h in holders.items()}
        before = {r: h.snapshot() for r, h in holders.items()}
        tag = f"{case['op']}({', '.join(roles)}) {case['role'] or 'all'}={case['cont'] or 'default'} {case['rep']}"

        def call():
            with contextlib.redirect_stdout(io.StringIO()):
                return fn(args)

        def check_inputs(stage):
            for r, h in holders.items():
                if h.snapshot() != before[r]:
                    res.fail("input-modified" if stage == "call" else "write-through-to-input",
                             f"{tag}: {r} changed after {stage}")
                    return False
            return True

        def nf(r):
            try:
                return gbh.normalise(r).key()
            except Exception:  # noqa
                return ("snap", snap(r))

        res.execs += 1
        try:
            r1 = call()
        except Exception as e:  # noqa  rejected combination: inputs must be intact all the same
            check_inputs("call")
            res.extra = {"extra_cells_where_the_call_raised": 1,
                         f"raised[{case['op']}]:{type(e).__name__}": 1}
            seams.reset()
            return res
        if not check_inputs("call"):
            seams.reset()
            return res
        n1 = nf(r1)
        results = list(r1.values()) if isinstance(r1, dict) else [r1]
        touched = []
        import gc
        for r in results:
            for nm, a in writable_handles(r):
                scribble(a)
                touched.append(nm)
            if isinstance(r, pd.Series) and len(r):
                try:
                    nv = r.to_numpy(copy=True)
                    nv = nv + 7 if nv.dtype.kind in "iuf" else nv[::-1].copy()
                    gc.collect()
                    r.iloc[:] = nv
                except Exception:  # noqa
                    pass
            elif isinstance(r, pd.DataFrame) and len(r):
                for j in range(r.shape[1]):
                    try:
                        nv = r.iloc[:, j].to_numpy(copy=True)
                        nv = nv + 7 if nv.dtype.kind in "iuf" else nv[::-1].copy()
                        gc.collect()
                        r.iloc[:, j] = nv
                    except Exception:  # noqa
                        pass
        if not check_inputs(f"mutating the result ({', '.join(touched) or 'setter'})"):
            seams.reset()
            return res
        res.execs += 1
        try:
            n2 = nf(call())
        except Exception as e:  # noqa
            n2 = f"raised {type(e).__name__}"
        if n2 != n1:
            res.fail("later-call-changed", f"{tag}: a later identical call differs after the first result "
                                           f"was mutated")
        seams.reset()
        return res


def subspaces(tier, seed):
    return [AliasSpace(tier, seed), ExtraSpace(tier, seed)]
