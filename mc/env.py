"""Repository binding, numba cache hygiene, worker environment, harness-side seams.

Nothing here may import numba / groupby_lib at module import time: the environment has to be
fixed first (setup_env) and only then is the library imported (bind).
"""
import hashlib
import os
import shutil
import sys
from pathlib import Path

VERIF = Path(__file__).resolve().parent.parent
REPO = Path(os.environ.get("VERIF_REPO", "/repo")).resolve()
PY = "/venv/bin/python"
GUARD = "GROUPBY_LIB_VERIF"


def tree_hash() -> str:
    h = hashlib.sha256()
    for p in sorted((REPO / "groupby_lib").rglob("*.py")):
        h.update(str(p.relative_to(REPO)).encode())
        h.update(b"\0")
        h.update(p.read_bytes())
        h.update(b"\0")
    return h.hexdigest()[:20]


def cache_root() -> Path:
    return VERIF / ".cache" / "numba"


def setup_env(boundscheck: bool = True, numba_threads: int = None) -> dict:
    """Fix the process environment.  Must run before numba is imported."""
    if numba_threads is None:
        numba_threads = int(os.environ.get("VERIF_NUMBA_THREADS", "1"))
    th = tree_hash()
    cdir = cache_root() / f"{th}-bc{int(boundscheck)}"
    cdir.mkdir(parents=True, exist_ok=True)
    env = {
        "PYTHONHASHSEED": "0",
        "NUMBA_CACHE_DIR": str(cdir),
        "NUMBA_FUNCTION_CACHE_SIZE": "1000000",
        "NUMBA_NUM_THREADS": str(numba_threads),
        "NUMBA_BOUNDSCHECK": "1" if boundscheck else "0",
        "OMP_NUM_THREADS": "1",
        "OMP_WAIT_POLICY": "passive",
        "GOMP_SPINCOUNT": "0",
        "POLARS_MAX_THREADS": "1",
        "PYTHONDONTWRITEBYTECODE": "1",
        GUARD: "1",
        "VERIF_REPO": str(REPO),
        "VERIF_TREE_HASH": th,
    }
    os.environ.update(env)
    sys.dont_write_bytecode = True
    return env


def prune_caches(keep: int = 4):
    root = cache_root()
    if not root.exists():
        return
    dirs = sorted((d for d in root.iterdir() if d.is_dir()), key=lambda d: d.stat().st_mtime)
    for d in dirs[:-keep]:
        shutil.rmtree(d, ignore_errors=True)


class BindingBroken(BaseException):
    pass


def bind(cache_writer: bool = False):
    """Import groupby_lib from REPO (working tree) and make sure it is that tree.

    Only the (single, flock-serialised) warm-up process may write numba's on-disk cache: numba
    names cache data files by the index size at save time, so two processes saving different
    signatures of one function concurrently can overwrite each other's data file and a later
    load returns the wrong specialisation (observed: "can't unbox array").  Everybody else
    uses the cache read-only and JIT-compiles in memory whatever is missing."""
    if "NUMBA_CACHE_DIR" not in os.environ:
        raise RuntimeError("setup_env() must be called before bind()")
    if str(REPO) not in sys.path[:1]:
        sys.path.insert(0, str(REPO))
    import warnings

    warnings.filterwarnings("ignore")
    import groupby_lib  # noqa

    f = Path(groupby_lib.__file__).resolve()
    if REPO not in f.parents:
        raise BindingBroken(f"groupby_lib imported from {f}, expected under {REPO}")
    stabilise_numba_cache()
    if not cache_writer:
        from numba.core import caching

        caching.Cache.save_overload = lambda self, sig, data: None
    return groupby_lib


def need(obj, name: str):
    """Seam lookup that fails loudly (exit code 2 in the driver), never silently."""
    if not hasattr(obj, name):
        raise BindingBroken(f"{getattr(obj, '__name__', obj)}.{name}")
    return getattr(obj, name)


# ---------------------------------------------------------------------------------------------
# seams (installed inside worker processes only)
# ---------------------------------------------------------------------------------------------
class Seams:
    """Handles on the module globals the harness owns.  See DESIGN.md section 1.4."""

    def __init__(self):
        import groupby_lib.groupby.core as core
        import groupby_lib.util as util

        self.core = core
        self.util = util
        self.GroupBy = need(core, "GroupBy")
        need(core, "THRESHOLD_FOR_CHUNKED_FACTORIZE")
        need(util, "parallel_map")
        need(util, "concurrent")
        for attr in ("_max_threads_for_numba", "_n_threads_for_key_factorization"):
            if not isinstance(self.GroupBy.__dict__.get(attr), property):
                raise BindingBroken(f"GroupBy.{attr} is not a property")
        self._orig = {
            "threshold": core.THRESHOLD_FOR_CHUNKED_FACTORIZE,
            "max_threads": self.GroupBy.__dict__["_max_threads_for_numba"],
            "fanout": self.GroupBy.__dict__["_n_threads_for_key_factorization"],
            "concurrent": util.concurrent,
        }

    def set(self, threshold=None, max_threads=None, fanout=None, executor=None):
        core, GroupBy, util = self.core, self.GroupBy, self.util
        core.THRESHOLD_FOR_CHUNKED_FACTORIZE = (
            self._orig["threshold"] if threshold is None else threshold
        )
        GroupBy._max_threads_for_numba = (
            self._orig["max_threads"]
            if max_threads is None
            else property(lambda s, T=max_threads: T)
        )
        GroupBy._n_threads_for_key_factorization = (
            self._orig["fanout"] if fanout is None else property(lambda s, F=fanout: F)
        )
        util.concurrent = self._orig["concurrent"] if executor is None else executor

    def reset(self):
        self.set()


_SEAMS = None


def seams() -> Seams:
    global _SEAMS
    if _SEAMS is None:
        _SEAMS = Seams()
    return _SEAMS


def stabilise_numba_cache():
    """numba keys its on-disk cache by the *pickled* argument types; a jitted function passed as
    an argument (reduce_func=ScalarFuncs.nansum) is pickled through a per-process random uuid, so
    kernels taking such arguments never hit the cache and bloat its index on every run.  Giving
    those dispatchers a deterministic uuid (before their first use) makes the keys stable across
    processes.  This touches numba's cache identity only, not the library or its semantics."""
    import numba
    from numba.core.dispatcher import Dispatcher
    import groupby_lib.groupby.numba as nbm
    import groupby_lib.util as util

    n = 0
    for holder in (getattr(nbm, "ScalarFuncs", None), getattr(util, "NumbaReductionOps", None)):
        if holder is None:
            continue
        for name, obj in vars(holder).items():
            f = obj.__func__ if isinstance(obj, staticmethod) else obj
            if isinstance(f, Dispatcher) and f._MemoMixin__uuid is None:
                f._set_uuid(f"verif-{holder.__name__}-{name}")
                n += 1
    return n
