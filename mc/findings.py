"""Predicates over case records for known findings (see known_findings.json).

A failing observation is attributed to an open finding only if property, facet, predicate
(over the case) and signature (regex over the failure summary) all match.
"""


def always(case):
    return True


def _rows(case):
    """(group id or None, x, m) per row of a word case"""
    out = []
    for r in case["w"]:
        kt = r[0]
        g = None if any(k < 0 for k in kt) else tuple(kt)
        out.append((g, r[1], r[2] if len(r) > 2 else 1))
    return out


def masked_row_between_selected_rows_of_a_group(case):
    """C05 / untimed EMA: some group has a selected row, later a rejected row, later a selected row."""
    if case.get("mask") not in ("bool", "bool_series"):
        return False
    state = {}
    for g, x, m in _rows(case):
        if g is None:
            continue
        st = state.get(g, 0)
        if st == 0 and m:
            state[g] = 1
        elif st == 1 and not m:
            state[g] = 2
        elif st == 2 and m:
            return True
    return False


def arrow_chunked_keys_str_dt_or_int_null(case):
    """C02/C12: pyarrow ChunkedArray keys of string/timestamp type, or ints with a null."""
    if case.get("route") != "pa_chunked":
        return False
    base = case["kinds"][0].split("_")[0]
    has_null = any(any(k < 0 for k in kt) for kt in case["w"])
    return base in ("str", "dt") or (base == "int" and has_null)


def polars_values_container(case):
    return case.get("container") in ("polars", "plframe")


def row_selection_without_input_index(case):
    return case.get("op") in ("head", "tail", "nth")


def single_bool_key(case):
    return case.get("kinds") == ["bool"]


def c12_str_or_dt_keys(case):
    return case.get("keykind", "").split("_")[0] in ("str", "dt")


def c19_cached_accessor(case):
    return case.get("op") in ("groups", "key_count", "accessor:groups", "accessor:key_count",
                              "accessor:ikey_count", "accessor:group_ikey")
