"""Predicates over case records for known findings (see known_findings.json)."""


def always(case):
    return True
