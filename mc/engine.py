"""Generic bounded-exhaustive explorer: sharding, crash journal, known findings, replay, evidence.

A *property module* (mc/props/cNN.py) exposes

    PROPERTY_ID, TECHNIQUE, RULE, ASSUMPTIONS
    subspaces(tier: str, seed: int) -> list[Subspace]

A Subspace is a finite, index-addressable set of cases.  `case(i)` returns a JSON-serialisable
description of case i, `run(case)` executes it on the real library and returns a Result.  The
same `run(case)` is used by the explorer and by `--replay`, so a replay file re-executes exactly
the failing case on the real code without the explorer.
"""
from __future__ import annotations

import collections
import importlib
import json
import multiprocessing as mp
import os
import queue
import re
import subprocess
import sys
import time
import traceback
from pathlib import Path

from . import env

VERIF = env.VERIF


# ---------------------------------------------------------------------------------------------
class Result:
    __slots__ = ("execs", "nontrivial", "failures", "outcomes", "states", "extra")

    def __init__(self):
        self.execs = 0  # library executions (transitions)
        self.nontrivial = False
        self.failures = []  # list of (facet, summary)
        self.outcomes = 1  # distinct observed outcomes for this case (schedules etc.)
        self.states = 1  # distinct explored states contributed by this case
        self.extra = None  # optional dict of counters to be summed into the evidence

    def fail(self, facet: str, summary: str):
        self.failures.append((facet, str(summary)[:400]))


class Subspace:
    name = "?"

    def size(self) -> int:
        raise NotImplementedError

    def case(self, i: int) -> dict:
        raise NotImplementedError

    def run(self, case: dict) -> Result:
        raise NotImplementedError

    def describe(self) -> str:
        return self.name


def load_prop(pid: str):
    return importlib.import_module(f"mc.props.{pid.lower()}")


# ---------------------------------------------------------------------------------------------
# known findings
# ---------------------------------------------------------------------------------------------
def load_findings(pid: str):
    path = VERIF / "known_findings.json"
    if not path.exists():
        return []
    data = json.loads(path.read_text())
    return [f for f in data.get("findings", []) if f["property"] == pid]


def attribute(findings, facet: str, summary: str, case: dict):
    """Return the id of the *open* finding that explains this failure, else None."""
    from . import findings as preds

    for f in findings:
        if f.get("status") != "open":
            continue
        if f.get("facet") not in (None, "*", facet):
            continue
        if not re.search(f["signature"], summary):
            continue
        pred = getattr(preds, f["predicate"])
        try:
            if pred(case):
                return f["id"]
        except Exception:
            continue
    return None


# ---------------------------------------------------------------------------------------------
# worker
# ---------------------------------------------------------------------------------------------
def _worker_main(wid, pid, tier, seed, task_q, res_q, journal_dir, boundscheck):
    cov = None
    try:
        env.setup_env(boundscheck=boundscheck)
        import io

        if os.environ.get("VERIF_COVERAGE"):
            # line coverage of the Python-level library code reached by the exploration (a survey
            # tool for finding branches no sub-space reaches; never part of a verdict)
            import coverage

            os.environ.setdefault("COVERAGE_CORE", "sysmon")
            cov = coverage.Coverage(data_file=os.path.join(os.environ["VERIF_COVERAGE"], f".cov.{pid}.{wid}.{os.getpid()}"),
                                    source=[str(env.REPO / "groupby_lib")], branch=False)
            cov.start()
        sys.stdout = io.StringIO()  # library prints are swallowed
        env.bind()
        prop = load_prop(pid)
        spaces = {s.name: s for s in prop.subspaces(tier, seed)}
        findings = load_findings(pid)
        jfd = os.open(str(Path(journal_dir) / f"w{wid}"), os.O_CREAT | os.O_WRONLY, 0o644)
    except BaseException as e:  # binding broken, import error, ...
        res_q.put(("fatal", wid, f"{type(e).__name__}: {e}", traceback.format_exc()))
        return
    res_q.put(("ready", wid))
    while True:
        task = task_q.get()
        if task is None:
            break
        tid, sname, start, stop = task
        sp = spaces[sname]
        out = dict(
            tid=tid, sname=sname, start=start, stop=stop, cases=0, execs=0, nontrivial=0,
            states=0, multi_outcome=0, unattributed=[], n_unattributed=0,
            by_finding=collections.Counter(), finding_example={}, samples=[],
            extra=collections.Counter(), sigs=collections.Counter(),
        )
        for i in range(start, stop):
            os.pwrite(jfd, f"{tid} {sname} {i}          \n".encode(), 0)
            case = sp.case(i)
            try:
                if isinstance(sys.stdout, io.StringIO) and sys.stdout.tell() > 1 << 20:
                    sys.stdout = io.StringIO()
                r = sp.run(case)
            except env.BindingBroken as e:
                res_q.put(("fatal", wid, f"BindingBroken: {e}", ""))
                return
            except BaseException as e:
                r = Result()
                r.execs = 1
                tb = traceback.extract_tb(e.__traceback__)
                where = f"{Path(tb[-1].filename).name}:{tb[-1].lineno}" if tb else "?"
                r.fail("harness", f"harness raised {type(e).__name__}: {e} @ {where}")
            out["cases"] += 1
            out["execs"] += r.execs
            out["states"] += r.states
            out["nontrivial"] += bool(r.nontrivial)
            out["multi_outcome"] += r.outcomes > 1
            if r.extra:
                out["extra"].update(r.extra)
            if i == start and len(out["samples"]) < 1:
                out["samples"].append(case)
            for facet, summary in r.failures:
                fid = attribute(findings, facet, summary, case)
                if fid is not None:
                    out["by_finding"][fid] += 1
                    out["finding_example"].setdefault(fid, (i, facet, summary))
                else:
                    out["n_unattributed"] += 1
                    sig = (facet, re.sub(r"[-+]?\d+(\.\d+)?(e[-+]?\d+)?", "#", summary)[:160])
                    out["sigs"][sig] += 1
                    if out["sigs"][sig] <= 2 and len(out["unattributed"]) < 40:
                        out["unattributed"].append((i, facet, summary, case))
        res_q.put(("done", wid, out))
    if cov is not None:
        cov.stop()
        cov.save()
    res_q.put(("bye", wid))


# ---------------------------------------------------------------------------------------------
# driver
# ---------------------------------------------------------------------------------------------
class Explorer:
    def __init__(self, pid, tier, seed, nworkers=None, budget_s=None, boundscheck=True,
                 only=None, verbose=True):
        self.pid, self.tier, self.seed = pid, tier, seed
        self.nworkers = nworkers or int(os.environ.get("VERIF_WORKERS", os.cpu_count() or 4))
        self.budget_s = budget_s
        self.boundscheck = boundscheck
        self.only = only
        self.verbose = verbose

    def log(self, *a):
        if self.verbose:
            print(*a, file=sys.stderr, flush=True)

    def run(self):
        t0 = time.time()
        env.setup_env(boundscheck=self.boundscheck)
        env.prune_caches()
        env.bind()
        prop = load_prop(self.pid)
        spaces = prop.subspaces(self.tier, self.seed)
        if self.only:
            spaces = [s for s in spaces if re.search(self.only, s.name)]
        findings = load_findings(self.pid)
        jdir = VERIF / "journal" / f"{self.pid}-{os.getpid()}"
        jdir.mkdir(parents=True, exist_ok=True)

        # warm the numba cache in ONE process so that 16 workers do not compile the same kernels
        self._warm(spaces)

        ctx = mp.get_context("spawn")
        task_q, res_q = ctx.Queue(), ctx.Queue()
        workers = {}

        def spawn(wid):
            p = ctx.Process(
                target=_worker_main,
                args=(wid, self.pid, self.tier, self.seed, task_q, res_q, str(jdir),
                      self.boundscheck),
                daemon=True,
            )
            p.start()
            workers[wid] = p

        # tasks
        tasks, tid = {}, 0
        sizes = {}
        for sp in spaces:
            n = sp.size()
            sizes[sp.name] = n
            shard = max(1, min(getattr(sp, "shard", 400), -(-n // (self.nworkers * 4))))
            for a in range(0, n, shard):
                tasks[tid] = (tid, sp.name, a, min(n, a + shard))
                tid += 1
        order = list(tasks)
        total_tasks = len(order)
        nw = min(self.nworkers, max(1, total_tasks))
        for w in range(nw):
            spawn(w)
        next_wid = nw
        for t in order:
            task_q.put(tasks[t])
        pending = set(order)

        agg = dict(cases=0, execs=0, nontrivial=0, states=0, multi_outcome=0, n_unattributed=0)
        per_space = {s.name: dict(cases=0, execs=0, size=sizes[s.name]) for s in spaces}
        by_finding = collections.Counter()
        finding_example = {}
        unattributed = []
        samples = []
        extra = collections.Counter()
        sigs = collections.Counter()
        crashes = []
        fatal = None
        last_report = time.time()
        respawns = 0

        while pending and fatal is None:
            try:
                msg = res_q.get(timeout=1.0)
            except queue.Empty:
                msg = None
            if msg is not None:
                kind = msg[0]
                if kind == "fatal":
                    fatal = msg
                    break
                if kind == "done":
                    out = msg[2]
                    pending.discard(out["tid"])
                    for k in agg:
                        agg[k] += out[k]
                    ps = per_space[out["sname"]]
                    ps["cases"] += out["cases"]
                    ps["execs"] += out["execs"]
                    by_finding.update(out["by_finding"])
                    for k, v in out["finding_example"].items():
                        finding_example.setdefault(k, (out["sname"],) + tuple(v))
                    for u in out["unattributed"]:
                        unattributed.append((out["sname"],) + tuple(u))
                    if len(samples) < 6 and out["samples"]:
                        if not any(s["subspace"] == out["sname"] for s in samples):
                            samples.append(dict(subspace=out["sname"], case=out["samples"][0]))
                    extra.update(out["extra"])
                    sigs.update(out["sigs"])
            # dead workers?
            for wid, p in list(workers.items()):
                if not p.is_alive() and p.exitcode not in (0, None):
                    jf = jdir / f"w{wid}"
                    del workers[wid]
                    if jf.exists() and jf.read_text().strip():
                        parts = jf.read_text().split()
                        jtid, sname, idx = int(parts[0]), parts[1], int(parts[2])
                        jf.unlink()
                        if jtid in pending:
                            crashes.append((sname, idx, p.exitcode))
                            _, _, a, b = tasks[jtid]
                            # results of the cases before idx in this shard are lost: redo them,
                            # skip the crashing case
                            pending.discard(jtid)
                            for (x, y) in ((a, idx), (idx + 1, b)):
                                if x < y:
                                    tasks[tid] = (tid, sname, x, y)
                                    pending.add(tid)
                                    task_q.put(tasks[tid])
                                    tid += 1
                    respawns += 1
                    if respawns > 200:
                        fatal = ("fatal", wid, "too many worker crashes", "")
                        break
                    spawn(next_wid)
                    next_wid += 1
            if time.time() - last_report > 30:
                last_report = time.time()
                self.log(f"[{self.pid}] {agg['cases']} cases, {agg['execs']} execs, "
                         f"{len(pending)}/{total_tasks} shards left, {time.time()-t0:.0f}s")
        for _ in workers:
            task_q.put(None)
        for p in workers.values():
            p.join(timeout=5)
            if p.is_alive():
                p.terminate()
        try:
            for f in jdir.iterdir():
                f.unlink()
            jdir.rmdir()
        except OSError:
            pass

        if fatal is not None:
            print(f"HARNESS-BINDING-BROKEN {fatal[2]}")
            if fatal[3]:
                print(fatal[3], file=sys.stderr)
            return 2

        # ------------------------------------------------------------------ triage
        space_by_name = {s.name: s for s in spaces}
        for sname, idx, code in crashes:
            case = space_by_name[sname].case(idx)
            summary = f"process crashed (exit code {code})"
            fid = attribute(findings, "total", summary, case)
            if fid:
                by_finding[fid] += 1
                finding_example.setdefault(fid, (sname, idx, "total", summary))
            else:
                agg["n_unattributed"] += 1
                unattributed.append((sname, idx, "total", summary, case))

        violations = []
        unconfirmed = 0
        if unattributed:
            # one representative per (facet, signature): the smallest case index (= shortest word)
            groups = {}
            for sname, idx, facet, summary, case in unattributed:
                sig = (facet, re.sub(r"[-+]?\d+(\.\d+)?(e[-+]?\d+)?", "#", summary)[:160])
                key = (sname, sig)
                if key not in groups or idx < groups[key][1]:
                    groups[key] = (sname, idx, facet, summary, case)
            reps = sorted(groups.values(), key=lambda g: (g[1], g[0]))[:12]
            rdir = VERIF / "replays" / self.pid
            rdir.mkdir(parents=True, exist_ok=True)
            for sname, idx, facet, summary, case in reps:
                import hashlib

                h = hashlib.sha1(json.dumps([sname, case], sort_keys=True, default=str).encode()).hexdigest()[:10]
                path = rdir / f"{facet}-{h}.json"
                path.write_text(json.dumps(dict(
                    property=self.pid, tier=self.tier, seed=self.seed, subspace=sname, index=idx,
                    facet=facet, summary=summary, case=case, tree=os.environ.get("VERIF_TREE_HASH"),
                ), indent=1, default=str))
                ok = confirm_in_fresh_process(self.pid, path, self.boundscheck)
                if ok:
                    violations.append((path, facet, summary))
                else:
                    unconfirmed += 1
                    self.log(f"[{self.pid}] not reproduced in a fresh process (ignored): {path}")

        wall = time.time() - t0
        # ------------------------------------------------------------------ output
        for f in findings:
            if f.get("status") == "open":
                n = by_finding.get(f["id"], 0)
                print(f"KNOWN-FINDING: property={self.pid} {f['what']} "
                      f"[{f['id']}] (reproduced on {n} explored cases)")
        printed = set()
        for path, facet, summary in violations:
            if path not in printed:
                printed.add(path)
                print(f"VIOLATION property={self.pid} replay={path}")
            print(f"    facet={facet}: {summary}")
        skipped = []
        exhaustive = all(per_space[s]["cases"] == per_space[s]["size"] for s in per_space) \
            and not skipped
        ev = dict(
            property_id=self.pid, tier=self.tier, seed=self.seed, level="model_checking",
            coverage=dict(
                states=agg["states"],
                transitions=agg["execs"],
                traces_validated_against_impl=agg["execs"],
                samples=samples or [dict(note="no cases")],
                evaluations=agg["cases"],
                distinct_nontrivial=agg["nontrivial"],
                rule=getattr(prop, "RULE", ""),
                exhaustive=bool(exhaustive),
                subspaces_completed={k: v for k, v in per_space.items()},
                subspaces_skipped=skipped,
                cases_with_more_than_one_outcome=agg["multi_outcome"],
                known_findings_matched={k: int(v) for k, v in by_finding.items()},
                unattributed_failing_observations=agg["n_unattributed"],
                not_reproduced_in_fresh_process=unconfirmed,
                worker_crashes=len(crashes),
                counters={k: int(v) for k, v in extra.items()},
                technique=getattr(prop, "TECHNIQUE", ""),
                tree_hash=os.environ.get("VERIF_TREE_HASH"),
                explanation="every case is an execution of the real implementation in /repo "
                            "(no separate model); states = explored (input x configuration "
                            "[x schedule / object state]) points, transitions = library calls",
            ),
            assumptions=list(getattr(prop, "ASSUMPTIONS", [])),
            wall_s=round(wall, 2),
            violations=len(violations),
        )
        evdir = Path(os.environ.get("VERIF_EVIDENCE_DIR") or (VERIF / "evidence"))
        evdir.mkdir(exist_ok=True, parents=True)
        (evdir / f"{self.pid}.json").write_text(json.dumps(ev, indent=1, default=str))
        self.log(f"[{self.pid}] tier={self.tier} seed={self.seed} cases={agg['cases']} "
                 f"execs={agg['execs']} nontrivial={agg['nontrivial']} known={dict(by_finding)} "
                 f"unattributed={agg['n_unattributed']} violations={len(violations)} "
                 f"wall={wall:.1f}s")
        if True:
            try:
                with open(VERIF / ".cache" / f"last-{self.pid}.txt", "w") as fh:
                    for (facet, s), n in sigs.most_common():
                        fh.write(f"{n:7d}  {facet}: {s}\n")
            except OSError:
                pass
        if self.verbose and sigs:
            for (facet, s), n in sigs.most_common(8):
                self.log(f"    {n:7d}  {facet}: {s}")
        return 1 if violations else 0

    def _warm(self, spaces):
        """Populate the on-disk JIT cache from ONE process (the only cache writer, serialised by
        a lock file), so that the 16 workers mostly load instead of compiling."""
        import fcntl

        cdir = Path(os.environ["NUMBA_CACHE_DIR"])
        marker = cdir / f".warm-{self.pid}-{self.tier}"
        if marker.exists() or os.environ.get("VERIF_NO_WARM"):
            return
        t = time.time()
        with open(cdir / ".warm.lock", "w") as lock:
            fcntl.flock(lock, fcntl.LOCK_EX)
            if not marker.exists():
                cmd = [env.PY, str(VERIF / "check"), self.pid, "--tier", self.tier, "--warm"]
                if not self.boundscheck:
                    cmd.append("--no-boundscheck")
                try:
                    subprocess.run(cmd, stdout=subprocess.DEVNULL, stderr=subprocess.DEVNULL,
                                   timeout=600, env=dict(os.environ, VERIF_SEED=str(self.seed)))
                except subprocess.TimeoutExpired:
                    pass
                marker.write_text("ok")
        self.log(f"[{self.pid}] JIT warm-up {time.time()-t:.1f}s")


def warm(pid, tier, seed, key=None):
    """Executed in a subprocess: touch a spread of cases of the subspaces with this warm_key."""
    import io

    env.bind(cache_writer=True)
    prop = load_prop(pid)
    sys.stdout = io.StringIO()
    t0 = time.time()
    for sp in prop.subspaces(tier, seed):
        if time.time() - t0 > 240:
            break
        if key is not None and getattr(sp, "warm_key", sp.name) != key:
            continue
        n = sp.size()
        pick = getattr(sp, "warm_indices", lambda n: (0, n // 3, n // 2, (2 * n) // 3, n - 1))
        for i in sorted({min(n - 1, max(0, i)) for i in pick(n)}):
            try:
                sp.run(sp.case(i))
            except BaseException:
                pass
    return 0


def confirm_in_fresh_process(pid, path, boundscheck=True) -> bool:
    cmd = [env.PY, str(VERIF / "check"), pid, "--replay", str(path), "--quiet"]
    if not boundscheck:
        cmd.append("--no-boundscheck")
    try:
        p = subprocess.run(cmd, capture_output=True, text=True, timeout=600)
    except subprocess.TimeoutExpired:
        return False
    return p.returncode != 0 and p.returncode != 2 or p.returncode < 0


def replay(pid, path, quiet=False):
    """Re-execute exactly one recorded case on the real code, without the explorer."""
    import io

    data = json.loads(Path(path).read_text())
    env.bind()
    prop = load_prop(pid)
    spaces = {s.name: s for s in prop.subspaces(data.get("tier", "quick"), data.get("seed", 0))}
    sp = spaces.get(data["subspace"])
    if sp is None:
        # the subspace may belong to the other tier
        other = "thorough" if data.get("tier") == "quick" else "quick"
        spaces = {s.name: s for s in prop.subspaces(other, data.get("seed", 0))}
        sp = spaces[data["subspace"]]
    real_stdout = sys.stdout
    sys.stdout = io.StringIO()
    try:
        r = sp.run(data["case"])
    finally:
        sys.stdout = real_stdout
    findings = load_findings(pid)
    bad = [(f, s) for f, s in r.failures if attribute(findings, f, s, data["case"]) is None]
    if not quiet:
        print(json.dumps(data["case"], default=str))
        for f, s in r.failures:
            print(f"  facet={f}: {s}")
    if bad:
        print(f"VIOLATION property={pid} replay={path}")
        return 1
    if not quiet:
        print("replay: property holds on this case")
    return 0
